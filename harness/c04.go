package main

import (
	"bytes"
	"encoding/binary"
	"fmt"
	"reflect"
	"runtime/metrics"
	"sort"
	"strconv"
	"strings"

	wio "github.com/whatap/golib/io"
	"github.com/whatap/golib/lang/pack"
	"github.com/whatap/golib/lang/pack/udp"
	"github.com/whatap/golib/lang/service"
	"github.com/whatap/golib/lang/step"
	"github.com/whatap/golib/lang/value"
	"github.com/whatap/golib/util/hmap"
	"github.com/whatap/golib/util/list"
	"github.com/whatap/golib/zzverif/simnet"
	"github.com/whatap/golib/zzverif/simrt"
)

// ---- C04: decoders fail closed: no fabricated data, bounded memory on bad input ----

func init() {
	setTier("C04", 20000, 400, 1200000, 1800)
	levelOf["C04"] = "fault_enumeration"
	addressSpaceLimit["C04"] = 8 << 30
	ruleOf["C04"] = "one run = one valid encoding generated from the tape (a value of any of the 21 tags nested to depth 3, a registered pack, an unregistered SM pack, a step stream, a transaction record, an int-int map or a typed list; one run in 60 a bulk encoding of 230-1500 addresses/short blobs or socket/sql/secure steps with individual content) first decoded completely and encoded again (round trip: the object must hold the input's data and nothing else), then subjected to (a) truncation at every byte offset (for encodings above 1 KiB: every offset in the first 256 and last 64 bytes, strided in between), decoded both from a buffer and through a simulated connection that delivers seeded fragments and then EOF/reset, and (b) overwrite of every byte with {00,7f,80,fe,ff} plus 4-byte and 8-byte big-endian hostile length patterns at every offset (exhaustive up to 256 bytes, strided above); every fifth run is scenario prim instead: 16 seeded sequences of primitive DataInputX reads over seeded, mostly hostile byte strings, on one reader, from a buffer and through a simulated connection, compared read by read with a reference reader written from the format; evaluations = runs; distinct_nontrivial = distinct cells (decoder kind, fault kind, offset class, outcome) reached, every one of which executed real decoder code on a faulty input"
	assumptionsOf["C04"] = []string{
		"a decoder that returns normally on a strict prefix is legitimate only if it did not read past the end of the prefix (Available() >= 0) and the connection mode, which can only hand out bytes it has, also returns normally; this decides the 'complete older version' exception behaviourally",
		"memory bound per decode: bytes allocated (runtime/metrics /gc/heap/allocs:bytes delta) <= 4 MiB + 64 x len(input) (the constant absorbs 16-bit count fields and the per-P lag of the allocation counter; a measurement above the bound is confirmed by decoding the same input again); hostile length patterns are capped at 2^27 so that a violating allocation stays survivable inside the worker process",
		"plain ReadBytes(n) on a connection must allocate before reading by design and is not charged in connection mode; the bound is applied to buffer-mode decodes",
		"inner payloads of container packs are generated small; gzip bombs are out of scope (compression ratio, not length fields)",
	}
	realComponents["C04"] = []string{"io.DataInputX (buffer mode and NewDataInputNet mode; all primitive reads in scenario prim)", "value.ReadValue (21 tags)", "pack.ReadPack (all registered packs)", "SM pack Read methods", "step.ReadStep", "service.TxRecord.ToObject", "hmap.IntIntMap.ToObject", "list.IntList/StringList/LongList Read"}
	stubComponents["C04"] = []string{"net.Conn byte source (simnet pipe: seeded fragmentation, EOF or reset at the truncation offset)"}
	probesFor["C04"] = []string{"roundtrip_equal", "roundtrip_equal_fragmented", "history_independent", "read_fragmented", "unknown_tag_hit", "trunc_panicked", "overwrite_panicked", "overwrite_decoded", "prim_read_equal", "prim_read_failed_as_it_must", "prim_refused_although_present"}
	register(&Scenario{Prop: "C04", Name: "decode", MaxSteps: 50000000, Body: c04Body, After: c04After, StepcapIsViolation: true})
}

type c04Case struct {
	Kind string `json:"kind"`
	Desc string `json:"desc"`
	Len  int    `json:"len"`
	Hex  string `json:"hex,omitempty"`
}

type c04Data struct {
	Case    c04Case  `json:"case"`
	Decodes int      `json:"decodes"`
	Notes   []string `json:"notes,omitempty"`
}

// ---- generators ----

func c04Text(n int) string {
	return strings.Repeat("t", n)
}

func c04Value(depth int) value.Value {
	k := simrt.Choose(21)
	if depth <= 0 && k >= 17 {
		k = simrt.Choose(17)
	}
	switch k {
	case 0:
		return value.NewNullValue()
	case 1:
		return value.NewBoolValue(simrt.Chance(1, 2))
	case 2:
		return value.NewDecimalValue([]int64{0, 1, -1, 127, 128, 32767, 8388607, 8388608, 2147483647, 549755813887, -549755813888, 1 << 62}[simrt.Choose(12)])
	case 3:
		return value.NewIntValue(int32(simrt.Choose(1000000) - 500))
	case 4:
		return value.NewLongValue(int64(simrt.Choose(1<<30)) << 20)
	case 5:
		return value.NewFloatValue(float32(simrt.Choose(1000)) / 7)
	case 6:
		return value.NewDoubleValue(float64(simrt.Choose(100000)) / 3)
	case 7:
		s := value.NewDoubleSummary()
		s.AddCount()
		return s
	case 8:
		return value.NewLongSummary()
	case 9:
		if simrt.Chance(1, 40) {
			// long enough for the 4-byte (marker 254) length form
			return value.NewTextValue(c04Text([]int{65535, 65536, 70000}[simrt.Choose(3)]))
		}
		return value.NewTextValue(c04Text([]int{0, 1, 5, 40, 253, 254, 300}[simrt.Choose(7)]))
	case 10:
		return value.NewTextHashValue(int32(simrt.Choose(1 << 30)))
	case 11:
		return value.NewBlobValue(make([]byte, []int{0, 1, 17, 253, 254, 255, 260}[simrt.Choose(7)]))
	case 12:
		return value.NewIP4Value([]byte{10, 0, byte(simrt.Choose(256)), 1})
	case 13:
		return value.NewIntArray([]int32{1, 2, int32(simrt.Choose(100))})
	case 14:
		return value.NewFloatArray([]float32{1.5, 2.5})
	case 15:
		return value.NewTextArray([]string{"a", c04Text(simrt.Choose(30)), ""})
	case 16:
		return value.NewLongArray([]int64{1 << 40, -5})
	case 17, 18:
		l := value.NewListValue(nil)
		n := simrt.Choose(4)
		for i := 0; i < n; i++ {
			l.Add(c04Value(depth - 1))
		}
		return l
	case 19:
		m := value.NewMapValue()
		n := simrt.Choose(4)
		for i := 0; i < n; i++ {
			m.Put("k"+strconv.Itoa(i), c04Value(depth-1))
		}
		return m
	default:
		m := value.NewIntMapValue()
		n := simrt.Choose(4)
		for i := 0; i < n; i++ {
			m.Put(int32(i*7), c04Value(depth-1))
		}
		return m
	}
}

var c04PackTypes = []int16{pack.PACK_PARAMETER, pack.PACK_COUNTER_1, pack.PACK_PROFILE, pack.PACK_ACTIVESTACK_1, pack.PACK_TEXT,
	pack.PACK_ERROR_SNAP_1, pack.PACK_REALTIME_USER, pack.PACK_STAT_SERVICE, pack.PACK_STAT_GENERAL, pack.PACK_STAT_SQL, pack.PACK_STAT_HTTPC,
	pack.PACK_STAT_ERROR, pack.PACK_STAT_REMOTE_IP, pack.PACK_STAT_USER_AGENT, pack.PACK_EVENT, pack.PACK_HITMAP_1, pack.PACK_EXTENSION,
	pack.TAG_COUNT, pack.TAG_LOG, pack.PACK_COMPOSITE, pack.PACK_LOGSINK, pack.PACK_ZIP, pack.PACK_LOGSINK_ZIP, pack.PACK_SERVERINFO}

func c04Pack() (pack.Pack, string) {
	t := c04PackTypes[simrt.Choose(len(c04PackTypes))]
	p := pack.CreatePack(t)
	p.SetPCODE(int64(simrt.Choose(1 << 20)))
	p.SetOID(int32(simrt.Choose(1 << 20)))
	p.SetTime(1700000000000 + int64(simrt.Choose(1<<20)))
	if simrt.Chance(1, 3) {
		p.SetOKIND(int32(1 + simrt.Choose(100)))
		p.SetONODE(int32(simrt.Choose(100)))
	}
	switch x := p.(type) {
	case *pack.TextPack:
		n := simrt.Choose(4)
		for i := 0; i < n; i++ {
			x.AddTexts([]pack.TextRec{{Div: byte(1 + simrt.Choose(20)), Hash: int32(simrt.Choose(1 << 30)), Text: c04Text(simrt.Choose(300))}})
		}
	case *pack.LogSinkPack:
		x.Category = "cat"
		x.Content = c04Text(simrt.Choose(300))
		x.Tags.PutString("a", "b")
		if simrt.Chance(1, 2) {
			x.Fields.PutString("f", "g")
		}
	case *pack.TagCountPack:
		x.Category = "c"
		x.PutTag("t", c04Text(simrt.Choose(40)))
		x.Put("n", simrt.Choose(1000))
	case *pack.ZipPack:
		x.RecordCount = simrt.Choose(5)
		x.Records = make([]byte, []int{0, 10, 253, 254, 300}[simrt.Choose(5)])
		x.Status = byte(simrt.Choose(2))
	case *pack.ParamPack:
		x.PutString("key", c04Text(simrt.Choose(50)))
		x.PutLong("n", int64(simrt.Choose(1<<30)))
	case *pack.EventPack:
		x.Level = pack.WARNING
		x.Title = c04Text(simrt.Choose(40))
		x.Message = c04Text(simrt.Choose(300))
		x.Attr.Put("k", "v"+strconv.Itoa(simrt.Choose(100)))
	case *pack.ActiveStackPack:
		x.Seq = int64(simrt.Choose(1 << 30))
		x.CallStack = []int32{1, 2, int32(simrt.Choose(1000))}
	case *pack.ExtensionPack:
		x.Header.Put("h", int32(simrt.Choose(100)))
		x.Value.Put(int32(simrt.Choose(10)), c04Value(1))
	case *pack.HitMapPack1:
		x.Add(simrt.Choose(9000), simrt.Chance(1, 3))
	case *pack.TagLogPack:
		x.PutTag("t", c04Text(simrt.Choose(30)))
		x.Put("n", simrt.Choose(1000))
	case *pack.ProfilePack:
		var steps []step.Step
		for i := 0; i < 1+simrt.Choose(3); i++ {
			s := step.CreateStep(c04StepTypes[simrt.Choose(len(c04StepTypes))])
			s.SetStartTime(int32(i))
			steps = append(steps, s)
		}
		x.SetProfile(steps)
	case *pack.ErrorSnapPack1:
		x.SetStack([]int32{5, 6, 7})
	case *pack.LogSinkZipPack:
		x.SetRecords(make([]byte, []int{0, 10, 200}[simrt.Choose(3)]), 100)
	case *pack.StatUserAgentPack:
		// sometimes exactly full (the table is bounded): one more entry must evict; keys are
		// hashes, so any int32 occurs, negative ones included
		n := []int{0, 3, 3, 3, 3, pack.STAT_USERAGENT_TABLE_MAX_SIZE}[simrt.Choose(6)]
		for i := 0; i < n; i++ {
			k := int32(1000 + i)
			if i == 0 || simrt.Chance(1, 4) {
				k = -k
			}
			x.UserAgents.Put(k, int32(i))
		}
	case *pack.StatGeneralPack:
		l := list.NewIntListDefault()
		l.AddInt(simrt.Choose(100))
		x.Put("col", l)
	}
	return p, pack.GetPackTypeString(t)
}

type c04RW interface {
	Write(*wio.DataOutputX)
	Read(*wio.DataInputX)
}

var c04SM = []func() (c04RW, string){
	func() (c04RW, string) { return pack.NewSMBasePack(), "SMBasePack" },
	func() (c04RW, string) { return pack.NewSMDiskPerfPack(), "SMDiskPerfPack" },
	func() (c04RW, string) { return pack.NewSMNetPerfPack(), "SMNetPerfPack" },
	func() (c04RW, string) { return pack.NewSMProcPerfPack(), "SMProcPerfPack" },
	func() (c04RW, string) { return pack.NewSMPingPack(), "SMPingPack" },
	func() (c04RW, string) { return pack.NewSMLogEventPack(), "SMLogEventPack" },
}

var c04UdpTypes = []uint8{udp.TX_START, udp.TX_DB_CONN, udp.TX_DB_FETCH, udp.TX_SQL, udp.TX_SQL_START, udp.TX_SQL_END, udp.TX_HTTPC, udp.TX_HTTPC_START,
	udp.TX_HTTPC_END, udp.TX_ERROR, udp.TX_MSG, udp.TX_METHOD, udp.TX_SECURE_MSG, udp.TX_SQL_PARAM, udp.TX_RESULT_SET, udp.TX_PARAM, udp.ACTIVE_STACK,
	udp.ACTIVE_STATS, udp.DBCONN_POOL, udp.TX_START_END, udp.TX_END}

var c04StepTypes = []byte{step.STEP_METHOD_X, step.STEP_SQL_X, step.STEP_RESULTSET, step.STEP_SOCKET, step.STEP_HTTPCALL_X,
	step.STEP_ACTIVE_STACK, step.STEP_MESSAGE, step.STEP_SECURE_MESSAGE, step.STEP_DBC}

// c04RT carries the round-trip oracle: while on, the decoder re-encodes what it decoded
// into got; want is what a faithful decode must re-encode to (the input itself unless set).
type c04RT struct {
	on   bool
	want []byte
	got  []byte
	// probe, if set, decodes a fixed companion encoding and returns a canonical rendering of
	// the result; it is called before the fault sweeps and again after them: what a decoder
	// returns must not depend on the decodes (failed ones included) that came before
	probe func() []byte
	// lenient: the encoding was produced from field values drawn without regard to the
	// field's own value rules (Process() normalises some), so only history independence is
	// judged, not byte equality of the round trip
	lenient bool
}

// c04Fill gives every exported field of basic kind its own non-zero value (embedded structs
// included, the protocol version excepted).
func c04Fill(v reflect.Value, n *int) {
	for i := 0; i < v.NumField(); i++ {
		f := v.Field(i)
		sf := v.Type().Field(i)
		if !f.CanSet() || sf.Name == "Ver" || sf.Name == "Flush" {
			continue
		}
		*n++
		switch f.Kind() {
		case reflect.Struct:
			c04Fill(f, n)
		case reflect.String:
			f.SetString("f" + strconv.Itoa(*n))
		case reflect.Int32, reflect.Int64, reflect.Int, reflect.Int16:
			f.SetInt(int64(100 + *n))
		case reflect.Uint8:
			f.SetUint(uint64(1 + *n%7))
		case reflect.Bool:
			f.SetBool(true)
		case reflect.Float32, reflect.Float64:
			f.SetFloat(float64(*n) + 0.5)
		}
	}
}

// c04SetVer sets a udp pack's protocol version field.
func c04SetVer(p udp.UdpPack, ver int32) {
	reflect.ValueOf(p).Elem().FieldByName("Ver").SetInt(int64(ver))
}

var rt04 = &c04RT{}

// c04CanonIntInt: a hash table's entry order depends on insertion history, not on content.
func c04CanonIntInt(m *hmap.IntIntMap) []byte {
	var ks []int
	en := m.Keys()
	for en.HasMoreElements() {
		ks = append(ks, int(en.NextInt()))
	}
	sort.Ints(ks)
	var sb strings.Builder
	for _, k := range ks {
		fmt.Fprintf(&sb, "%d=%d;", k, m.Get(int32(k)))
	}
	return []byte(sb.String())
}

// c04Bulk draws encodings whose single reader passes many thousands of small retained
// fields (addresses, short blobs), each with its own content: data a decoder keeps must
// still be the input's data after the decoder has read on.
func c04Bulk() (c04Case, []byte, func(in *wio.DataInputX)) {
	n := []int{230, 300, 520, 800, 1200, 1500}[simrt.Choose(6)]
	salt := simrt.Choose(200)
	ip := func(i int) []byte { return []byte{byte(10 + salt%100), byte(i >> 8), byte(i), byte(i*7 + salt)} }
	switch simrt.Choose(6) {
	case 4:
		// several payloads of 64 KiB and more in one message (each its own large read)
		k := 2 + simrt.Choose(2)
		tp := pack.NewTextPack()
		for i := 0; i < k; i++ {
			tp.AddTexts([]pack.TextRec{{Div: byte(1 + i), Hash: int32(salt + i), Text: strings.Repeat(string(rune('a'+i)), []int{65536, 66000, 70000}[simrt.Choose(3)])}})
		}
		return c04Case{Kind: "pack", Desc: fmt.Sprintf("TextPack with %d texts of 64 KiB+", k)}, pack.ToBytesPack(tp), func(in *wio.DataInputX) {
			q := pack.ReadPack(in)
			if rt04.on {
				rt04.got = pack.ToBytesPack(q)
			}
		}
	case 5:
		k := 2 + simrt.Choose(2)
		l := value.NewListValue(nil)
		for i := 0; i < k; i++ {
			b := make([]byte, []int{65536, 66000, 70000}[simrt.Choose(3)])
			for j := range b {
				b[j] = byte(i + 1)
			}
			l.Add(value.NewBlobValue(b))
		}
		bb := value.WriteValue(wio.NewDataOutputX(), l).ToByteArray()
		return c04Case{Kind: "value", Desc: fmt.Sprintf("list of %d blobs of 64 KiB+", k)}, bb, func(in *wio.DataInputX) {
			v := value.ReadValue(in)
			if rt04.on {
				rt04.got = value.WriteValue(wio.NewDataOutputX(), v).ToByteArray()
			}
		}
	case 0:
		l := value.NewListValue(nil)
		for i := 0; i < n; i++ {
			if i%5 == 4 {
				l.Add(value.NewBlobValue(append([]byte("b"), ip(i)...)))
			} else {
				l.Add(value.NewIP4Value(ip(i)))
			}
		}
		b := value.WriteValue(wio.NewDataOutputX(), l).ToByteArray()
		return c04Case{Kind: "value", Desc: fmt.Sprintf("list of %d addresses", n)}, b, func(in *wio.DataInputX) {
			v := value.ReadValue(in)
			if rt04.on {
				rt04.got = value.WriteValue(wio.NewDataOutputX(), v).ToByteArray()
			}
		}
	case 1:
		m := value.NewMapValue()
		for i := 0; i < n; i++ {
			m.Put("k"+strconv.Itoa(i), value.NewIP4Value(ip(i)))
		}
		b := value.WriteValue(wio.NewDataOutputX(), m).ToByteArray()
		return c04Case{Kind: "value", Desc: fmt.Sprintf("map of %d addresses", n)}, b, func(in *wio.DataInputX) {
			v := value.ReadValue(in)
			if rt04.on {
				rt04.got = value.WriteValue(wio.NewDataOutputX(), v).ToByteArray()
			}
		}
	default:
		var steps []step.Step
		for i := 0; i < n; i++ {
			switch (i + salt) % 3 {
			case 0:
				s := step.NewSocketStep()
				s.IpAddr, s.Port, s.Elapsed = ip(i), int32(i), int32(salt)
				steps = append(steps, s)
			case 1:
				s := step.NewSqlStepX()
				s.Hash, s.P1, s.P2 = int32(i), append([]byte("p1"), ip(i)...), append([]byte("p2"), ip(i)...)
				steps = append(steps, s)
			default:
				s := step.NewSecureMsgStep()
				s.Hash, s.Value = int32(i), append([]byte("sec"), ip(i)...)
				steps = append(steps, s)
			}
			steps[i].SetStartTime(int32(i))
			steps[i].SetIndex(int32(i))
		}
		return c04Case{Kind: "steps", Desc: fmt.Sprintf("%d socket/sql/secure steps", n)}, step.ToBytesStep(steps), func(in *wio.DataInputX) {
			var got []step.Step
			for i := 0; i < n; i++ {
				got = append(got, step.ReadStep(in))
			}
			if rt04.on {
				rt04.got = step.ToBytesStep(got)
			}
		}
	}
}

// c04Gen draws one valid encoding and the decoder that must consume it.
func c04Gen() (c04Case, []byte, func(in *wio.DataInputX)) {
	if simrt.Chance(1, 60) {
		return c04Bulk()
	}
	switch simrt.Choose(13) {
	case 12:
		// a log-sink container whose payload is (usually) gzip-compressed and unpacked by a
		// second pass (LogSinkZipPack.GetRecords): the compressed stream carries length fields
		// of its own (the gzip trailer)
		var recs []byte
		var want []byte
		n := 1 + simrt.Choose(4)
		z := pack.NewLogSinkZipPack()
		z.SetPCODE(int64(simrt.Choose(1 << 20)))
		z.SetOID(int32(simrt.Choose(1 << 20)))
		for i := 0; i < n; i++ {
			lp := pack.NewLogSinkPack()
			lp.Time = 1700000000000 + int64(i)
			lp.Category = "c"
			lp.Line = int64(i)
			lp.Content = c04Text(simrt.Choose(200))
			lp.Tags.PutString("k", strconv.Itoa(i))
			recs = append(recs, pack.ToBytesPack(lp)...)
			lp.SetPCODE(z.Pcode)
			lp.SetOID(z.Oid)
			lp.SetOKIND(z.Okind)
			lp.SetONODE(z.Onode)
			want = append(want, pack.ToBytesPack(lp)...)
		}
		z.SetRecords(recs, []int{0, 100, 1 << 30}[simrt.Choose(3)])
		z.RecordCount = n
		rt04.want = want
		return c04Case{Kind: "logsinkzip", Desc: fmt.Sprintf("%d records status %d", n, z.Status)}, pack.ToBytesPack(z), func(in *wio.DataInputX) {
			if zp, ok := pack.ReadPack(in).(*pack.LogSinkZipPack); ok {
				got := zp.GetRecords()
				if rt04.on {
					rt04.got = []byte{}
					for _, p := range got {
						rt04.got = append(rt04.got, pack.ToBytesPack(p)...)
					}
				}
			}
		}
	case 11:
		// a container whose inner packs are decoded by a second pass (ZipPack.GetRecords):
		// bytes FOLLOW each inner pack, so an inner count can be raised without running dry
		var inner []pack.Pack
		names := ""
		for i := 0; i < 1+simrt.Choose(3); i++ {
			p, nm := c04Pack()
			inner = append(inner, p)
			names += nm + " "
		}
		z := pack.NewZipPack()
		z.SetRecords(inner)
		var want []byte
		for _, p := range inner {
			// by design the container's identity replaces each inner record's own
			p.SetPCODE(z.Pcode)
			p.SetOID(z.Oid)
			p.SetOKIND(z.Okind)
			p.SetONODE(z.Onode)
			want = append(want, pack.ToBytesPack(p)...)
		}
		rt04.want = want
		return c04Case{Kind: "ziprecords", Desc: strings.TrimSpace(names)}, pack.ToBytesPack(z), func(in *wio.DataInputX) {
			if zp, ok := pack.ReadPack(in).(*pack.ZipPack); ok {
				recs := zp.GetRecords()
				if rt04.on {
					rt04.got = []byte{}
					for _, p := range recs {
						rt04.got = append(rt04.got, pack.ToBytesPack(p)...)
					}
				}
			}
		}
	case 10:
		// UDP tracer packs: decoded with an explicit type and protocol version
		t := c04UdpTypes[simrt.Choose(len(c04UdpTypes))]
		ver := []int32{10101, 10110, 20101, 20104, 30101, 30103, 50100, 50101}[simrt.Choose(8)]
		p := udp.CreatePack(t, ver)
		if p == nil {
			panic("no such udp pack")
		}
		populated := simrt.Chance(1, 2)
		if populated {
			n := 0
			c04Fill(reflect.ValueOf(p).Elem(), &n)
			rt04.lenient = true
		}
		b := udp.ToBytesPack(p)
		// companion: the same pack as an older protocol version writes it (a complete, shorter
		// message); decoded before and after the sweeps and rendered at the newest version, so
		// that fields the older version does not carry show if anything was left in them
		lo := []int32{10101, 10110, 20101, 20104, 30101, 30103, 50100, 50101}[simrt.Choose(8)]
		if lo > ver {
			lo = ver
		}
		c04SetVer(p, lo)
		bLo := udp.ToBytesPack(p)
		udp.ClosePack(p)
		rt04.probe = func() []byte {
			q := udp.ReadPack(t, lo, wio.NewDataInputX(bLo))
			if q == nil {
				return nil
			}
			c04SetVer(q, 50101)
			out := udp.ToBytesPack(q)
			udp.ClosePack(q)
			return out
		}
		return c04Case{Kind: "udppack", Desc: fmt.Sprintf("type %d ver %d", t, ver)}, b, func(in *wio.DataInputX) {
			q := udp.ReadPack(t, ver, in)
			if q != nil {
				if rt04.on {
					rt04.got = udp.ToBytesPack(q)
				}
				udp.ClosePack(q)
			}
		}
	case 0, 1, 2:
		v := c04Value(3)
		b := value.WriteValue(wio.NewDataOutputX(), v).ToByteArray()
		return c04Case{Kind: "value", Desc: fmt.Sprintf("tag %d", v.GetValueType())}, b, func(in *wio.DataInputX) {
			v := value.ReadValue(in)
			if rt04.on {
				rt04.got = value.WriteValue(wio.NewDataOutputX(), v).ToByteArray()
			}
		}
	case 3, 4, 5:
		p, name := c04Pack()
		return c04Case{Kind: "pack", Desc: name}, pack.ToBytesPack(p), func(in *wio.DataInputX) {
			q := pack.ReadPack(in)
			if rt04.on {
				rt04.got = pack.ToBytesPack(q)
			}
		}
	case 6:
		mk := c04SM[simrt.Choose(len(c04SM))]
		p, name := mk()
		o := wio.NewDataOutputX()
		p.Write(o)
		return c04Case{Kind: "smpack", Desc: name}, o.ToByteArray(), func(in *wio.DataInputX) {
			q, _ := mk()
			q.Read(in)
			if rt04.on {
				o := wio.NewDataOutputX()
				q.Write(o)
				rt04.got = o.ToByteArray()
			}
		}
	case 7:
		n := 1 + simrt.Choose(4)
		var steps []step.Step
		var names []string
		for i := 0; i < n; i++ {
			t := c04StepTypes[simrt.Choose(len(c04StepTypes))]
			s := step.CreateStep(t)
			s.SetStartTime(int32(simrt.Choose(100000)))
			s.SetIndex(int32(i))
			steps = append(steps, s)
			names = append(names, strconv.Itoa(int(t)))
		}
		return c04Case{Kind: "steps", Desc: strings.Join(names, ",")}, step.ToBytesStep(steps), func(in *wio.DataInputX) {
			var got []step.Step
			for i := 0; i < n; i++ {
				got = append(got, step.ReadStep(in))
			}
			if rt04.on {
				rt04.got = step.ToBytesStep(got)
			}
		}
	case 8:
		tx := service.NewTxRecord()
		tx.Service = int32(simrt.Choose(1 << 20))
		tx.Elapsed = int32(simrt.Choose(100000))
		tx.EndTime = 1700000000000
		return c04Case{Kind: "txrecord", Desc: "TxRecord"}, tx.ToBytes(), func(in *wio.DataInputX) {
			q := service.NewTxRecord()
			q.Read(in)
			if rt04.on {
				rt04.got = q.ToBytes()
			}
		}
	default:
		switch simrt.Choose(4) {
		case 0:
			m := hmap.NewIntIntMapDefault()
			n := simrt.Choose(6)
			for i := 0; i < n; i++ {
				m.Put(int32(simrt.Choose(100000)), int32(simrt.Choose(100000)))
			}
			o := wio.NewDataOutputX()
			m.ToBytes(o)
			rt04.want = c04CanonIntInt(m)
			return c04Case{Kind: "intintmap", Desc: "IntIntMap"}, o.ToByteArray(), func(in *wio.DataInputX) {
				q := hmap.NewIntIntMapDefault()
				q.ToObject(in)
				if rt04.on {
					rt04.got = c04CanonIntInt(q)
				}
			}
		case 1:
			l := list.NewIntListDefault()
			n := simrt.Choose(6)
			for i := 0; i < n; i++ {
				l.AddInt(simrt.Choose(100000))
			}
			o := wio.NewDataOutputX()
			l.Write(o)
			return c04Case{Kind: "typedlist", Desc: "IntList"}, o.ToByteArray(), func(in *wio.DataInputX) {
				q := list.NewIntListDefault()
				q.Read(in)
				if rt04.on {
					o := wio.NewDataOutputX()
					q.Write(o)
					rt04.got = o.ToByteArray()
				}
			}
		case 2:
			l := list.NewStringListDefault()
			n := simrt.Choose(5)
			for i := 0; i < n; i++ {
				l.AddString(c04Text(simrt.Choose(20)))
			}
			o := wio.NewDataOutputX()
			l.Write(o)
			return c04Case{Kind: "typedlist", Desc: "StringList"}, o.ToByteArray(), func(in *wio.DataInputX) {
				q := list.NewStringListDefault()
				q.Read(in)
				if rt04.on {
					o := wio.NewDataOutputX()
					q.Write(o)
					rt04.got = o.ToByteArray()
				}
			}
		default:
			l := list.NewLongListDefault()
			n := simrt.Choose(6)
			for i := 0; i < n; i++ {
				l.AddLong(int64(simrt.Choose(1 << 30)))
			}
			o := wio.NewDataOutputX()
			l.Write(o)
			return c04Case{Kind: "typedlist", Desc: "LongList"}, o.ToByteArray(), func(in *wio.DataInputX) {
				q := list.NewLongListDefault()
				q.Read(in)
				if rt04.on {
					o := wio.NewDataOutputX()
					q.Write(o)
					rt04.got = o.ToByteArray()
				}
			}
		}
	}
}

var allocSample = []metrics.Sample{{Name: "/gc/heap/allocs:bytes"}}

func allocBytes() uint64 {
	metrics.Read(allocSample)
	return allocSample[0].Value.Uint64()
}

type c04Out struct {
	panicked bool
	msg      string
	avail    int32
	alloc    uint64
}

func c04Decode(b []byte, dec func(*wio.DataInputX)) (o c04Out) {
	// termination: one decode may take a number of simulator steps proportional to its
	// input (instrumented containers yield at every statement), never unboundedly many
	simrt.SetStepBudget(3000000 + 4000*int64(len(b)))
	in := wio.NewDataInputX(b)
	before := allocBytes()
	defer func() {
		o.alloc = allocBytes() - before
		if r := recover(); r != nil {
			o.panicked = true
			o.msg = strings.SplitN(fmt.Sprint(r), "\n", 2)[0]
		} else {
			o.avail = in.Available()
		}
	}()
	dec(in)
	return
}

// c04DecodeConn decodes through a simulated connection that holds exactly b and then ends.
func c04DecodeConn(b []byte, end int, dec func(*wio.DataInputX)) (o c04Out, delivered int) {
	simrt.SetStepBudget(3000000 + 4000*int64(len(b)))
	conn, srv := simnet.NewPipe()
	srv.Feed(b, end)
	in := wio.NewDataInputNet(conn)
	defer func() {
		delivered = srv.Delivered()
		if r := recover(); r != nil {
			o.panicked = true
			o.msg = strings.SplitN(fmt.Sprint(r), "\n", 2)[0]
		}
	}()
	dec(in)
	return
}

func offClass(i, n int) string {
	switch {
	case i == 0:
		return "first"
	case i == n-1:
		return "last"
	case i < 8:
		return "head"
	case i > n-8:
		return "tail"
	}
	return "mid"
}

func c04Body(rc *RunCtx) {
	d := &c04Data{}
	rc.Data = d
	var cs c04Case
	var enc []byte
	var dec func(*wio.DataInputX)
	*rt04 = c04RT{}
	func() {
		defer func() {
			if r := recover(); r != nil {
				enc = nil // a default-constructed object that cannot even be encoded: not a corpus entry
			}
		}()
		cs, enc, dec = c04Gen()
	}()
	if enc == nil {
		simrt.Probe("corpus_invalid")
		d.Notes = append(d.Notes, "generator could not encode this object")
		return
	}
	cs.Len = len(enc)
	if len(enc) <= 64 {
		cs.Hex = fmt.Sprintf("%x", enc)
	}
	d.Case = cs
	rc.NonTrivial = true
	label := cs.Kind + "/" + cs.Desc
	rc.Label = label
	stop := false
	viol := func(oracle, msg string) {
		if oracle == "memory" {
			stop = true // one oversized allocation per run is enough (each costs seconds of zeroing/GC)
		}
		rc.Violate("C04", oracle, oracle+":"+cs.Kind, fmt.Sprintf("%s (%s, %d bytes%s)", msg, label, len(enc), map[bool]string{true: " " + cs.Hex, false: ""}[cs.Hex != ""]))
	}
	cell := func(fault, cls, outcome string) {
		rc.Cells = append(rc.Cells, cs.Kind+"|"+fault+"|"+cls+"|"+outcome)
	}
	// sanity: the complete encoding decodes and consumes exactly its bytes
	rt04.on = true
	full := c04Decode(enc, dec)
	rt04.on = false
	d.Decodes++
	wantFull := rt04.want
	if wantFull == nil {
		wantFull = enc
	}
	// a decode that reports bytes left over although what it returned re-encodes to the whole
	// input has read everything: its bookkeeping is off, the entry itself is fine
	if full.panicked || (full.avail != 0 && !(rt04.got != nil && bytes.Equal(rt04.got, wantFull))) {
		d.Notes = append(d.Notes, fmt.Sprintf("corpus entry not self-consistent: panicked=%v %s avail=%d", full.panicked, full.msg, full.avail))
		simrt.Probe("corpus_invalid")
		simrt.Probe("corpus_invalid:" + cs.Kind)
		return
	}
	simrt.Probe("corpus:" + cs.Kind)
	// round trip: what the decoder returned, encoded again, is the input — nothing in the
	// object came from anywhere else (and nothing it kept was overwritten by later reads)
	if rt04.got != nil && !rt04.lenient {
		want := rt04.want
		if want == nil {
			want = enc
		}
		if !bytes.Equal(rt04.got, want) {
			at := 0
			for at < len(want) && at < len(rt04.got) && want[at] == rt04.got[at] {
				at++
			}
			viol("fabricated-data", fmt.Sprintf("the complete encoding decodes to an object that encodes differently: %d bytes in, %d bytes back, first difference at offset %d", len(want), len(rt04.got), at))
		} else {
			simrt.Probe("roundtrip_equal")
		}
		// the same through a connection that delivers the complete encoding in seeded fragments
		rt04.got, rt04.on = nil, true
		oc, _ := c04DecodeConn(enc, 1+simrt.ChooseF(2), dec)
		rt04.on = false
		d.Decodes++
		switch {
		case oc.panicked:
			viol("fabricated-data", fmt.Sprintf("the complete encoding decodes from a buffer but fails with %q when the same bytes arrive in fragments over a connection", oc.msg))
		case !bytes.Equal(rt04.got, want):
			viol("fabricated-data", fmt.Sprintf("the complete encoding, delivered in fragments over a connection, decodes to an object that encodes differently (%d bytes in, %d back)", len(want), len(rt04.got)))
		default:
			simrt.Probe("roundtrip_equal_fragmented")
		}
	}
	bound := func(n int) uint64 { return 4<<20 + 64*uint64(n) }
	n := len(enc)
	// history independence, part 1: renderings taken before any faulty input was decoded
	firstGot := append([]byte(nil), rt04.got...)
	var probe0 []byte
	probeOK := false
	if rt04.probe != nil {
		func() {
			defer func() { recover() }()
			probe0 = rt04.probe()
			probeOK = true
		}()
	}
	probeAgain := func(when string) {
		if !probeOK || stop {
			return
		}
		var probe1 []byte
		func() {
			defer func() { recover() }()
			probe1 = rt04.probe()
		}()
		d.Decodes++
		if !bytes.Equal(probe0, probe1) {
			at := 0
			for at < len(probe0) && at < len(probe1) && probe0[at] == probe1[at] {
				at++
			}
			stop = true
			viol("fabricated-data", fmt.Sprintf("an older-version message of the same pack type decodes differently %s than before any faulty input (renderings differ at offset %d): fields the message does not carry hold data from an earlier, failed decode", when, at))
		} else {
			simrt.Probe("history_independent")
		}
	}
	defer func() {
		if stop || len(rc.Viols) > 0 {
			return
		}
		// part 2: the same decodes again, after hundreds of truncated and corrupted inputs
		rt04.got, rt04.on = nil, true
		again := c04Decode(enc, dec)
		rt04.on = false
		if again.panicked || !bytes.Equal(rt04.got, firstGot) {
			viol("fabricated-data", fmt.Sprintf("decoding the complete encoding again after the fault sweeps gives a different result (panicked=%v %s): what a decoder returns depends on earlier, failed decodes", again.panicked, again.msg))
		}
		probeAgain("after the fault sweeps")
	}()
	// (a) truncation at every offset, buffer mode and connection mode
	tstride := 1
	thead := 256
	if n > 1024 {
		tstride = n / 300 // long encodings: every offset near both ends, strided in between
	}
	if n > 8000 {
		tstride, thead = n/60, 64 // bulk encodings are in the corpus for the round trip; sweep them lightly
	}
	for k := 0; k < n && !stop; k++ {
		if tstride > 1 && k >= thead && k < n-64 && k%tstride != 0 {
			continue
		}
		pre := enc[:k]
		ob := c04Decode(pre, dec)
		if ob.alloc > bound(k) {
			ob = c04Decode(pre, dec) // confirm: the allocation counter lags by up to a few spans
		}
		oc, delivered := c04DecodeConn(pre, 1+simrt.ChooseF(3), dec) // EOF after / reset after / EOF together with the last bytes
		d.Decodes += 2
		cls := offClass(k, n)
		if ob.alloc > bound(k) {
			viol("memory", fmt.Sprintf("decoding the %d-byte prefix allocated %d bytes (> 4 MiB + 64 x input)", k, ob.alloc))
		}
		switch {
		case ob.panicked:
			simrt.Probe("trunc_panicked")
			cell("trunc", cls, "panic")
			if k%3 == 0 {
				probeAgain(fmt.Sprintf("right after the failed decode of the %d-byte prefix", k))
			}
		case ob.avail < 0:
			cell("trunc", cls, "fabricated")
			viol("fabricated-data", fmt.Sprintf("decoding the strict %d-byte prefix returned an object although it consumed %d bytes more than existed (buffer mode: missing bytes read as zeros)", k, -ob.avail))
		case oc.panicked:
			cell("trunc", cls, "mode-diff")
			viol("fabricated-data", fmt.Sprintf("decoding the strict %d-byte prefix returned an object from a buffer, but a connection holding exactly those bytes hit %q after delivering %d", k, oc.msg, delivered))
		default:
			simrt.Probe("prefix_returned_normally_legit")
			cell("trunc", cls, "legit-shorter")
		}
		if !oc.panicked && ob.panicked {
			// the other direction: a connection that ended inside the message must not yield an
			// object where the buffer holding the same bytes refuses
			cell("trunc", cls, "mode-diff-conn")
			viol("fabricated-data", fmt.Sprintf("decoding the strict %d-byte prefix fails from a buffer (%s) but returns an object when the same bytes arrive over a connection that then ends (%d delivered)", k, ob.msg, delivered))
		}
	}
	// (b) overwrite sweeps
	stride := 1
	if n > 256 {
		stride = n / 200
	}
	if n > 2000 {
		stride = n / 60
	}
	ohead := 96
	if n > 8000 {
		stride, ohead = n/20, 32
	}
	check := func(fault string, i int, mut []byte) {
		if stop {
			return
		}
		o := c04Decode(mut, dec)
		if o.alloc > bound(len(mut)) {
			o = c04Decode(mut, dec) // confirm: the allocation counter lags by up to a few spans
		}
		d.Decodes++
		cls := offClass(i, n)
		if o.alloc > bound(len(mut)) {
			cell(fault, cls, "overalloc")
			viol("memory", fmt.Sprintf("%s at offset %d: decoding allocated %d bytes for a %d-byte input (> 4 MiB + 64 x input): %s", fault, i, o.alloc, len(mut), o.msg))
			return
		}
		if o.panicked {
			simrt.Probe("overwrite_panicked")
			if strings.Contains(o.msg, "nil pointer") || strings.Contains(o.msg, "invalid memory address") {
				simrt.Probe("unknown_tag_hit")
			}
			cell(fault, cls, "panic")
			return
		}
		if o.avail < 0 {
			cell(fault, cls, "fabricated")
			viol("fabricated-data", fmt.Sprintf("%s at offset %d: decoder returned normally after consuming %d bytes more than the input holds", fault, i, -o.avail))
			return
		}
		simrt.Probe("overwrite_decoded")
		cell(fault, cls, "decoded")
	}
	mut := make([]byte, n)
	for i := 0; i < n && !stop; i++ {
		if i >= ohead && i%stride != 0 {
			continue // headers and leading count fields exhaustively, the body strided
		}
		for _, v := range []byte{0x00, 0x7f, 0x80, 0xfe, 0xff} {
			if enc[i] == v {
				continue
			}
			copy(mut, enc)
			mut[i] = v
			check(fmt.Sprintf("byte=%02x", v), i, mut)
		}
		if i+4 <= n {
			for _, v := range []uint32{0xffffffff, 0x7fffffff, 1 << 26, 1 << 24} {
				copy(mut, enc)
				binary.BigEndian.PutUint32(mut[i:], v)
				check(fmt.Sprintf("int32=%#x", v), i, mut)
			}
		}
		if i+4 <= n {
			// little-endian length fields (the gzip trailer inside compressed payloads)
			for _, v := range []uint32{1 << 26, 1 << 28, 0x7fffffff} {
				copy(mut, enc)
				binary.LittleEndian.PutUint32(mut[i:], v)
				check(fmt.Sprintf("int32le=%#x", v), i, mut)
			}
		}
		if i+9 <= n {
			// decimal with 8-byte form: length byte 8 followed by a big count
			copy(mut, enc)
			mut[i] = 8
			binary.BigEndian.PutUint64(mut[i+1:], 1<<26)
			check("decimal8=2^26", i, mut)
		}
		if i+3 <= n {
			copy(mut, enc)
			binary.BigEndian.PutUint16(mut[i:], 0x7fff)
			check("int16=7fff", i, mut)
			copy(mut, enc)
			mut[i] = 254 // blob 4-byte length form
			check("blob254", i, mut)
		}
		if i+5 <= n {
			// blob/text marker 254 followed by a hostile 4-byte length, incl. values whose sum
			// with the current read offset overflows int32
			for _, v := range []uint32{0x7fffffff, 0x7ffffff0, 0x7fffff00, 0x40000000} {
				copy(mut, enc)
				mut[i] = 254
				binary.BigEndian.PutUint32(mut[i+1:], v)
				check(fmt.Sprintf("blob254+len=%#x", v), i, mut)
			}
		}
	}
}

func c04After(rc *RunCtx, res *simrt.Result) {
	d := rc.Data.(*c04Data)
	rc.Sample = d
	var h uint64 = 1469598103934665603
	for _, c := range []byte(d.Case.Kind + d.Case.Desc + d.Case.Hex) {
		h = (h ^ uint64(c)) * 1099511628211
	}
	rc.OutcomeHash = h ^ uint64(d.Decodes)
}
