package main

import (
	"bytes"
	"compress/gzip"
	"context"
	"errors"
	"fmt"
	"io"
	"runtime"
	"strconv"
	"strings"
	"time"

	wio "github.com/whatap/golib/io"
	"github.com/whatap/golib/lang/pack"
	"github.com/whatap/golib/lang/value"
	"github.com/whatap/golib/logsink/zip"
	wnet "github.com/whatap/golib/net"
	"github.com/whatap/golib/util/dateutil"
	"github.com/whatap/golib/zzverif/simrt"
)

// ---- C16: log-sink zip batching emits every record exactly once, in order, decodably ----

func init() {
	setTier("C16", 60000, 240, 2000000, 1800)
	levelOf["C16"] = "exploration"
	ruleOf["C16"] = "one run = one seeded scenario (settings applied through ApplyConfig or left at the built-in defaults, consuming or retaining client, 1-3 producers adding unique records of sizes 0 B..beyond the buffer limit with seeded gaps, optional SendDirect batches, optional cancel at a seeded instant) under one seeded schedule; oracles over the packs handed to a recording TcpClient (bytes captured at hand-over and again at the end) (plus: a second configuration omitting settings, a reload at runtime changing queue size, shortening the wait or moving the compression threshold (half of the latter placed inside a flush), records of 66-306 KB, a slow or failing client, direct-only senders, multi-byte content, skewed record time stamps); non-trivial = a context switch inside an Add/SendDirect or a cancel fired; distinct = distinct fingerprint of (switch sequence, emitted pack sequence)"
	assumptionsOf["C16"] = []string{
		"the sender is obtained through GetInstance (real constructor path) after resetting the package singleton with the verif-tagged hook; settings are applied only through the public ApplyConfig, in the sequential prologue; in a quarter of the configured runs a reload at a seeded instant changes the queue size alone (records already accepted stay accepted)",
		"slow-client fault: the hand-over to the client blocks for up to one wait-time, at most twice per run; the liveness window grows by that much",
		"a record the bounded queue refused is observed through Queue.Failed and exempt",
		"records whose Add raced with (or followed) the cancel call are exempt from the emitted-after-stop requirement; everything whose Add returned before cancel was invoked must be emitted",
		"idle-timeout flushes are judged on the millisecond clock the sender reads, with 2 ms tolerance",
		"gzip payloads are decoded with the standard library reader, records with golib's own pack reader (codec correctness is C03's business)",
	}
	realComponents["C16"] = []string{"logsink/zip.ZipSendProxyThread (GetInstance, Add, SendDirect, ApplyConfig, run loop)", "util/queue.RequestQueue", "pack.LogSinkPack / pack.ZipPack codecs", "util/compressutil (gzip)"}
	stubComponents["C16"] = []string{"recording net.TcpClient (consume / retain)", "config.Config stub (map-backed)", "sync, time (virtual clock), goroutine scheduler"}
	probesFor["C16"] = []string{"flush_by_size", "flush_by_age", "flush_by_idle", "flush_by_cancel", "retained_pack_followed_by_append", "payload_at_threshold", "queue_refused", "defaults_batch", "senddirect_split", "client_send_error"}
	register(&Scenario{Prop: "C16", Name: "configured", MaxSteps: 2000000, Body: c16Body(true), After: c16After, Quanta: []int64{20000, 50000}})
	register(&Scenario{Prop: "C16", Name: "defaults", MaxSteps: 2000000, Body: c16Body(false), After: c16After, Quanta: []int64{20000, 50000}})
}

// ---- stub configuration (implements config.Config) ----

type stubConf struct{ m map[string]string }

func (c *stubConf) ApplyDefault()              {}
func (c *stubConf) GetConfFile() string        { return "" }
func (c *stubConf) Destroy()                   {}
func (c *stubConf) GetKeys() []string          { return nil }
func (c *stubConf) GetValue(key string) string { return c.m[key] }
func (c *stubConf) GetValueDef(key, def string) string {
	if v, ok := c.m[key]; ok {
		return v
	}
	return def
}
func (c *stubConf) GetBoolean(key string, def bool) bool {
	if v, ok := c.m[key]; ok {
		return v == "true"
	}
	return def
}
func (c *stubConf) GetInt(key string, def int) int32 {
	if v, ok := c.m[key]; ok {
		n, _ := strconv.Atoi(v)
		return int32(n)
	}
	return int32(def)
}
func (c *stubConf) GetIntSet(key, def, deli string) []int32 { return nil }
func (c *stubConf) GetLong(key string, def int64) int64 {
	if v, ok := c.m[key]; ok {
		n, _ := strconv.ParseInt(v, 10, 64)
		return n
	}
	return def
}
func (c *stubConf) GetStringArray(key string, def string, deli string) []string { return nil }
func (c *stubConf) GetStringHashSet(key, def, deli string) []int32              { return nil }
func (c *stubConf) GetStringHashCodeSet(key, def, deli string) []int32          { return nil }
func (c *stubConf) GetFloat(key string, def float32) float32                    { return def }
func (c *stubConf) SetValues(v *map[string]string)                              {}
func (c *stubConf) ToString() string                                            { return "" }
func (c *stubConf) String() string                                              { return "" }

// ---- recording client ----

type c16Emit struct {
	Seq     int    `json:"seq"`
	Stamp   int64  `json:"stamp"`
	AtMs    int64  `json:"at_ms"`
	Via     string `json:"via"` // queue | direct
	Bytes   int    `json:"bytes"`
	Count   int    `json:"record_count"`
	Zipped  bool   `json:"zipped"`
	IDs     []int  `json:"ids"`
	p       pack.Pack
	atHand  []byte
	Task    int  `json:"task"`
	Errored bool `json:"errored,omitempty"`
}

type c16Client struct {
	d      *c16Data
	retain bool
}

func (c *c16Client) Connect() error { return nil }
func (c *c16Client) Close() error   { return nil }
func (c *c16Client) Send(p pack.Pack, opts ...wnet.TcpClientOption) error {
	return c.SendFlush(p, false, opts...)
}

//go:norace
func (c *c16Client) SendFlush(p pack.Pack, flush bool, opts ...wnet.TcpClientOption) error {
	e := &c16Emit{Seq: len(c.d.Emits), Stamp: simrt.Stamp(), AtMs: dateutil.SystemNow(), p: p}
	e.atHand = pack.ToBytesPack(p)
	e.Bytes = len(e.atHand)
	if t := simrt.Cur(); t != nil {
		e.Task = t.ID
		if t.ID == c.d.directTask {
			e.Via = "direct"
		} else {
			e.Via = "queue"
		}
	}
	c.d.Emits = append(c.d.Emits, e)
	// fault: a slow collector link: the hand-over blocks for a while (at most twice per run), so
	// a backlog builds up in the queue behind it
	if c.d.SlowClient && c.d.stalls < 2 && simrt.ChanceF(1, 3) {
		c.d.stalls++
		simrt.Fault("client_stall")
		simrt.Sleep(time.Duration(1+simrt.ChooseF(int(c.d.WaitMs))) * time.Millisecond)
	}
	// fault: the client reports a send error for a pack it was nevertheless handed (dropped
	// connection, failed flush, full client queue). The pack counts as handed over.
	if c.d.ClientErrors && simrt.ChanceF(1, 5) {
		e.Errored = true
		simrt.Fault("client_send_error")
		return errors.New("simulated send failure")
	}
	return nil
}

type c16Rec struct {
	ID      int    `json:"id"`
	Task    int    `json:"task"`
	Size    int    `json:"size"`
	TimeMs  int64  `json:"time_ms"`
	AddMs   int64  `json:"add_ms"` // local clock when Add was called (TimeMs is the record\'s own stamp)
	Call    int64  `json:"call"`
	Return  int64  `json:"return"`
	Via     string `json:"via"`
	Refused bool   `json:"refused,omitempty"`
	Enc     int    `json:"enc"` // encoded size inside a batch
	Bad     bool   `json:"unserialisable,omitempty"`
}

type c16Data struct {
	Configured   bool  `json:"configured"`
	Retain       bool  `json:"retain"`
	ClientErrors bool  `json:"client_errors"`
	DirectOnly   bool  `json:"direct_only,omitempty"`
	SlowClient   bool  `json:"slow_client,omitempty"`
	Reapplied    bool  `json:"second_configuration,omitempty"`
	Wait2        int64 `json:"wait_after_reload,omitempty"`    // waiting time set by a reload at runtime (0 = unchanged)
	Zip2         int   `json:"zip_min_after_reload,omitempty"` // compression threshold set by a reload at runtime (0 = unchanged)
	ReconfCall   int64 `json:"reload_call,omitempty"`
	ReconfRet    int64 `json:"reload_return,omitempty"`
	stalls       int
	MaxBuf       int        `json:"max_buffer_size"`
	WaitMs       int64      `json:"max_wait_time"`
	ZipMin       int        `json:"zip_min_size"`
	QueueSize    int        `json:"queue_size"`
	Recs         []*c16Rec  `json:"records"`
	Emits        []*c16Emit `json:"emits"`
	CancelStamp  int64      `json:"cancel_stamp"`
	CancelMs     int64      `json:"cancel_ms"`
	EndMs        int64      `json:"end_ms"`
	QueueCap     int        `json:"queue_capacity_observed"`
	directTask   int
	refused      map[int]bool
	byID         map[int]*c16Rec
}

//go:norace
func (d *c16Data) addRec(r *c16Rec) { d.Recs = append(d.Recs, r); d.byID[r.ID] = r }

func c16Kind(id int) (okind, onode int32) {
	return []int32{0, 5, -7, 0, 2041}[id%5], []int32{0, 0, 3, -9, -739397152}[id%5]
}

func c16Record(id, size int, timeMs int64) *pack.LogSinkPack {
	p := pack.NewLogSinkPack()
	p.Pcode = 77
	p.Oid = int32(id)
	// object kind / node ids are name hashes: any int32, zero included, in any combination
	p.Okind, p.Onode = c16Kind(id)
	p.Time = timeMs
	p.Category = "c16"
	p.Line = int64(id)
	p.Tags.PutString("host", "h"+strconv.Itoa(id%3))
	p.Tags.PutString("id", strconv.Itoa(id))
	if id%2 == 0 {
		p.Fields.PutString("f", strconv.Itoa(id*7))
	}
	p.Content = "rec-" + strconv.Itoa(id) + "-" + strings.Repeat("q", size)
	if id%4 == 1 {
		// text that does not compress (log lines are not always repetitive)
		var sb strings.Builder
		sb.WriteString("rec-" + strconv.Itoa(id) + "-")
		x := uint64(id)*0x9e3779b97f4a7c15 + 1
		for sb.Len() < size+8 {
			x = simrt.Mix64(x, uint64(sb.Len()))
			sb.WriteString(strconv.FormatUint(x, 36))
		}
		p.Content = sb.String()
	}
	if id%5 == 3 {
		// multi-byte content: sizes in bytes and in characters differ
		p.Content = "rec-" + strconv.Itoa(id) + "-" + strings.Repeat("ü", size/2) + strings.Repeat("한", size%7)
	}
	return p
}

func c16Body(configured bool) func(rc *RunCtx) {
	return func(rc *RunCtx) {
		d := &c16Data{Configured: configured, refused: map[int]bool{}, byID: map[int]*c16Rec{}, directTask: -1}
		rc.Data = d
		d.Retain = simrt.Chance(1, 2)
		d.ClientErrors = simrt.ChanceF(1, 3)
		d.SlowClient = simrt.ChanceF(1, 5)
		client := &c16Client{d: d, retain: d.Retain}
		ctx, cancel := context.WithCancel(context.Background())
		zip.VerifReset()
		d.DirectOnly = !configured && simrt.Chance(1, 4)
		var inst *zip.ZipSendProxyThread
		if d.DirectOnly {
			// no queue, no background goroutine: records only ever pass through SendDirect
			inst = zip.GetInstance(zip.WithTcpClient(client), zip.WithContext(ctx, cancel))
		} else {
			inst = zip.GetInstance(zip.WithUseQueue(), zip.WithTcpClient(client), zip.WithContext(ctx, cancel))
		}
		simrt.OnReset(func() { cancel(); zip.VerifReset() })
		if configured {
			d.MaxBuf = []int{300, 1, 120, 1000, 5000, 64 * 1024}[simrt.Choose(6)]
			d.WaitMs = []int64{200, 20, 50, 2000, 5000}[simrt.Choose(5)]
			d.ZipMin = []int{100, 0, 1, 150, 2000, 10240}[simrt.Choose(6)]
			d.QueueSize = []int{1000, 1, 3, 10}[simrt.Choose(4)]
			if simrt.Chance(1, 3) {
				// an earlier configuration with other values was in force first; the one applied
				// now may not mention every setting, and a setting it does not mention is back at
				// its built-in default (64 KiB, 5 s, 100 bytes, 1000)
				inst.ApplyConfig(&stubConf{m: map[string]string{"max_buffer_size": "777", "max_wait_time": "70", "logsink_zip_min_size": "33", "logsink_queue_size": "2"}})
				simrt.Settle(int64(5200 * time.Millisecond))
				d.Reapplied = true
			}
			m := map[string]string{}
			keep := func() bool { return !d.Reapplied || !simrt.Chance(1, 3) }
			if keep() {
				m["max_buffer_size"] = strconv.Itoa(d.MaxBuf)
			} else {
				d.MaxBuf = 64 * 1024
			}
			if keep() {
				m["max_wait_time"] = strconv.FormatInt(d.WaitMs, 10)
			} else {
				d.WaitMs = 5000
			}
			if keep() {
				m["logsink_zip_min_size"] = strconv.Itoa(d.ZipMin)
			} else {
				d.ZipMin = 100
			}
			if keep() {
				m["logsink_queue_size"] = strconv.Itoa(d.QueueSize)
			} else {
				d.QueueSize = 1000
			}
			inst.ApplyConfig(&stubConf{m: m})
			// the background loop was started by GetInstance with the previous waiting time;
			// let that in-flight poll expire so that the settings just applied are "in force"
			simrt.Settle(int64(5200 * time.Millisecond))
		} else {
			// the built-in defaults the statement names
			d.MaxBuf, d.WaitMs, d.ZipMin, d.QueueSize = 64*1024, 5000, 100, 1000
			simrt.Probe("defaults_batch")
		}
		if !d.DirectOnly {
			d.QueueCap = inst.Queue.GetCapacity()
			inst.Queue.Failed = func(v interface{}) {
				if p, ok := v.(*pack.LogSinkPack); ok {
					c16Refuse(d, int(p.Line))
				}
			}
		} else {
			d.QueueCap = 1000
		}
		nProd := 1 + simrt.Choose(3)
		if d.DirectOnly {
			nProd = 0
		}
		nextID := 0
		type item struct {
			id, size int
			gapMs    int
		}
		sizes := func() int {
			if simrt.Chance(1, 40) {
				// a very large record: many times the buffer limit, beyond the sizes at which a
				// reusable buffer is usually kept (64 KiB, 256 KiB)
				return 66000 + simrt.Choose(240000)
			}
			switch simrt.Choose(10) {
			case 0:
				return 0
			case 1, 2, 3, 4:
				return simrt.Choose(60)
			case 5, 6:
				return 60 + simrt.Choose(200)
			case 7:
				return 900 + simrt.Choose(400)
			case 8:
				return d.MaxBuf%70000 + simrt.Choose(50) // larger than the buffer limit
			default:
				return 4000 + simrt.Choose(3000)
			}
		}
		gap := func() int {
			switch simrt.Choose(8) {
			case 0, 1, 2, 3:
				return 0
			case 4:
				return 1 + simrt.Choose(5)
			case 5:
				return int(d.WaitMs/2) + simrt.Choose(3)
			case 6:
				return int(d.WaitMs) + simrt.Choose(int(d.WaitMs)+2)
			default:
				return 1 + simrt.Choose(50)
			}
		}
		plans := make([][]item, nProd)
		total := 0
		for p := 0; p < nProd; p++ {
			n := 1 + simrt.Choose(6)
			for i := 0; i < n; i++ {
				nextID++
				plans[p] = append(plans[p], item{nextID, sizes(), gap()})
			}
			total += n
		}
		var direct []item
		if simrt.Chance(1, 3) || d.DirectOnly {
			n := 1 + simrt.Choose(5)
			for i := 0; i < n; i++ {
				nextID++
				direct = append(direct, item{nextID, sizes(), 0})
			}
		}
		doCancel := simrt.Chance(1, 3)
		cancelAfterMs := 0
		if doCancel {
			cancelAfterMs = simrt.Choose(int(d.WaitMs)*2 + 60)
		}
		simrt.SetStepsGuess(int64(total) * 150)
		var tasks []*simrt.Task
		for p := 0; p < nProd; p++ {
			pl := plans[p]
			// the record's own time stamp need not come from this host's clock: ahead, behind
			skew := []int64{0, 0, 0, 30000, -3600000, d.WaitMs / 2}[simrt.Choose(6)]
			tk := simrt.GoNamed("prod"+strconv.Itoa(p+1), func() {
				id := simrt.Cur().ID
				for _, it := range pl {
					if it.gapMs > 0 {
						simrt.Sleep(time.Duration(it.gapMs) * time.Millisecond)
					}
					r := &c16Rec{ID: it.id, Task: id, Size: it.size, AddMs: dateutil.SystemNow(), Via: "queue"}
					r.TimeMs = r.AddMs + skew
					rp := c16Record(it.id, it.size, r.TimeMs)
					r.Enc = len(pack.ToBytesPack(rp))
					if it.id%11 == 7 {
						// a record that cannot be serialised (built without its constructor: nil tag
						// map). The sender may drop it; the batch around it must stay consistent
						rp = &pack.LogSinkPack{}
						rp.Line = int64(it.id)
						r.Bad = true
						simrt.Probe("unserialisable_record")
					}
					d.addRec(r)
					simrt.SetOp(it.id)
					r.Call = simrt.Stamp()
					inst.Add(rp)
					r.Return = simrt.Stamp()
					simrt.SetOp(0)
				}
			})
			tasks = append(tasks, tk)
		}
		if len(direct) > 0 {
			tk := simrt.GoNamed("direct", func() {
				d.directTask = simrt.Cur().ID
				var batch []*pack.LogSinkPack
				for _, it := range direct {
					r := &c16Rec{ID: it.id, Task: d.directTask, Size: it.size, AddMs: dateutil.SystemNow(), Via: "direct"}
					r.TimeMs = r.AddMs
					rp := c16Record(it.id, it.size, r.TimeMs)
					r.Enc = len(pack.ToBytesPack(rp))
					d.addRec(r)
					batch = append(batch, rp)
				}
				simrt.SetOp(1000)
				c := simrt.Stamp()
				inst.SendDirect(batch)
				rt := simrt.Stamp()
				simrt.SetOp(0)
				for _, it := range direct {
					d.byID[it.id].Call, d.byID[it.id].Return = c, rt
				}
			})
			tasks = append(tasks, tk)
		}
		if doCancel {
			tk := simrt.GoNamed("canceller", func() {
				simrt.Sleep(time.Duration(cancelAfterMs) * time.Millisecond)
				d.CancelStamp = simrt.Stamp()
				d.CancelMs = dateutil.SystemNow()
				simrt.Fault("cancel")
				cancel()
			})
			tasks = append(tasks, tk)
		}
		if configured && !d.DirectOnly && simrt.ChanceF(1, 4) {
			// configuration reload at runtime: only the queue size changes (possibly below the
			// backlog of the moment); records already accepted stay accepted
			at := simrt.ChooseF(int(d.WaitMs) + 30)
			newSize := []int{1, 2, 3, 10, 1000}[simrt.ChooseF(5)]
			// ... or, in half of these runs, the waiting time is shortened instead (while the
			// sender may be in the middle of handing a batch to a slow client)
			newWait := d.WaitMs
			if simrt.ChanceF(1, 2) {
				newSize = d.QueueSize
				for _, w := range []int64{2000, 200, 50, 20} {
					if w < d.WaitMs {
						newWait = w
						break
					}
				}
			}
			// ... or (one reload in three) the compression threshold moves, up or down, while a
			// batch may be between being wrapped into a pack and being compressed
			newZip := d.ZipMin
			if simrt.ChanceF(1, 3) {
				newSize, newWait = d.QueueSize, d.WaitMs
				for _, z := range []int{100000, 1, 4096, 100} {
					if z != d.ZipMin && simrt.ChanceF(1, 2) {
						newZip = z
						break
					}
				}
			}
			// in half of the threshold reloads the reload is not timed by the clock: it parks until
			// the sender is inside a flush (seen through the clock reading that stamps the pack) and
			// is runnable from then on, the schedule deciding where in the flush it lands
			targeted := newZip != d.ZipMin && simrt.ChanceF(1, 2)
			var zipWait []*simrt.Task
			if targeted {
				simrt.ClockReadHook = func() {
					if len(zipWait) > 0 && c16CalledFrom(".sendAndClear") {
						for _, t := range zipWait {
							simrt.MakeRunnable(t)
						}
						zipWait = nil
						simrt.Probe("reload_woken_inside_flush")
					}
				}
				simrt.OnReset(func() { simrt.ClockReadHook = nil })
			}
			tk := simrt.GoNamed("reconfig", func() {
				if targeted {
					simrt.SleepOrWake(time.Duration(int64(at)+2*d.WaitMs)*time.Millisecond, &zipWait)
				} else {
					simrt.Sleep(time.Duration(at) * time.Millisecond)
				}
				if newZip != d.ZipMin {
					simrt.Fault("reconfig_zip_min")
					d.Zip2 = newZip
				}
				if newWait != d.WaitMs {
					simrt.Fault("reconfig_shorter_wait")
					d.Wait2 = newWait
				} else {
					simrt.Fault("reconfig_queue_size")
				}
				d.ReconfCall = simrt.Stamp()
				inst.ApplyConfig(&stubConf{m: map[string]string{
					"max_buffer_size": strconv.Itoa(d.MaxBuf), "max_wait_time": strconv.FormatInt(newWait, 10),
					"logsink_zip_min_size": strconv.Itoa(newZip), "logsink_queue_size": strconv.Itoa(newSize)}})
				d.ReconfRet = simrt.Stamp()
			})
			tasks = append(tasks, tk)
		}
		for _, tk := range tasks {
			simrt.Join(tk)
		}
		// flush liveness: after producers stop everything accepted is emitted within
		// wait-time + one poll of virtual time
		window := 2*d.WaitMs + 1000 // generous: executing code costs virtual CPU time too
		if d.SlowClient {
			window += 2 * d.WaitMs // plus the (at most two) stalls of a slow client
		}
		simrt.Settle(int64(time.Duration(window) * time.Millisecond))
		d.EndMs = dateutil.SystemNow()
	}
}

//go:norace
func c16Refuse(d *c16Data, id int) { d.refused[id] = true }

func gunzip(b []byte) ([]byte, error) {
	r, err := gzip.NewReader(bytes.NewReader(b))
	if err != nil {
		return nil, err
	}
	return io.ReadAll(r)
}

// decodeBatch decodes a serialized ZipPack into record ids; returns payload length.
func c16Decode(raw []byte) (ids []int, times []int64, encs []int, payload int, zipped bool, count int, err error) {
	defer func() {
		if r := recover(); r != nil {
			err = fmt.Errorf("decode panic: %v", r)
		}
	}()
	p := pack.ToPack(raw)
	zp, ok := p.(*pack.ZipPack)
	if !ok {
		return nil, nil, nil, 0, false, 0, fmt.Errorf("emitted pack is %T, not *ZipPack", p)
	}
	data := zp.Records
	zipped = zp.Status == pack.ZIPPED
	if zp.Status != 0 && zp.Status != pack.ZIPPED {
		return nil, nil, nil, 0, false, 0, fmt.Errorf("unknown status byte %d", zp.Status)
	}
	if zipped {
		if data, err = gunzip(zp.Records); err != nil {
			return nil, nil, nil, 0, true, zp.RecordCount, fmt.Errorf("flagged compressed but gunzip fails: %v", err)
		}
	}
	payload = len(data)
	count = zp.RecordCount
	in := wio.NewDataInputX(data)
	for in.Available() > 0 {
		before := in.Available()
		rp := pack.ReadPack(in)
		ls, ok := rp.(*pack.LogSinkPack)
		if !ok {
			return ids, times, encs, payload, zipped, count, fmt.Errorf("inner pack is %T", rp)
		}
		if !strings.HasPrefix(ls.Content, "rec-"+strconv.FormatInt(ls.Line, 10)+"-") {
			return ids, times, encs, payload, zipped, count, fmt.Errorf("inner record %d has foreign content %.40q", ls.Line, ls.Content)
		}
		if exp := c16Record(int(ls.Line), 0, ls.Time); !bytes.Equal(value.WriteValue(wio.NewDataOutputX(), ls.Tags).ToByteArray(), value.WriteValue(wio.NewDataOutputX(), exp.Tags).ToByteArray()) ||
			!bytes.Equal(value.WriteValue(wio.NewDataOutputX(), ls.Fields).ToByteArray(), value.WriteValue(wio.NewDataOutputX(), exp.Fields).ToByteArray()) {
			return ids, times, encs, payload, zipped, count, fmt.Errorf("inner record %d does not decode back to what was handed in: tags %s fields %s, expected tags %s fields %s", ls.Line, ls.Tags.ToString(), ls.Fields.ToString(), exp.Tags.ToString(), exp.Fields.ToString())
		}
		if ok, on := c16Kind(int(ls.Line)); ls.Pcode != 77 || ls.Oid != int32(ls.Line) || ls.Okind != ok || ls.Onode != on || ls.Category != "c16" {
			return ids, times, encs, payload, zipped, count, fmt.Errorf("inner record %d does not decode back to what was handed in: pcode=%d oid=%d okind=%d onode=%d category=%q, expected pcode=77 oid=%d okind=%d onode=%d category=\"c16\"", ls.Line, ls.Pcode, ls.Oid, ls.Okind, ls.Onode, ls.Category, ls.Line, ok, on)
		}
		ids = append(ids, int(ls.Line))
		c16Contents[int(ls.Line)] = ls.Content
		times = append(times, ls.Time)
		encs = append(encs, int(before-in.Available()))
	}
	return
}

// c16Contents: decoded content per record id of the run being judged (filled by c16Decode)
var c16Contents = map[int]string{}

// c16CalledFrom reports whether a function whose name ends in suffix is on the caller's stack.
func c16CalledFrom(suffix string) bool {
	var pcs [32]uintptr
	n := runtime.Callers(2, pcs[:])
	fr := runtime.CallersFrames(pcs[:n])
	for {
		f, more := fr.Next()
		if strings.HasSuffix(f.Function, suffix) {
			return true
		}
		if !more {
			return false
		}
	}
}

func c16After(rc *RunCtx, res *simrt.Result) {
	d := rc.Data.(*c16Data)
	c16Contents = map[int]string{}
	rc.Sample = d
	mode := "configured"
	if !d.Configured {
		mode = "defaults"
	}
	viol := func(oracle, msg string) {
		rc.Violate("C16", oracle, oracle+":"+mode, fmt.Sprintf("%s | settings: buffer=%d wait=%dms zipmin=%d queue=%d retain=%v cancel@%dms", msg, d.MaxBuf, d.WaitMs, d.ZipMin, d.QueueSize, d.Retain, d.CancelMs))
	}
	// waiting times that may have been in force when a pack was handed over at stamp st: the
	// original one unless the hand-over began after the reload returned, the reloaded one
	// unless it happened before the reload began
	waitLoHi := func(st int64) (lo, hi int64) {
		lo, hi = d.WaitMs, d.WaitMs
		if d.Wait2 != 0 && d.ReconfCall != 0 {
			if st > d.ReconfCall {
				lo = d.Wait2 // shorter
			}
			if d.ReconfRet != 0 && st > d.ReconfRet {
				// the loop may still be inside a poll it started under the old setting; records
				// buffered before the reload were judged under it
				hi = d.WaitMs
			}
		}
		return
	}
	var h uint64 = 1469598103934665603
	emitted := map[int]int{}
	var queueOrder, directOrder []int
	for _, e := range d.Emits {
		ids, times, encs, payload, zipped, count, err := c16Decode(e.atHand)
		e.IDs, e.Zipped, e.Count = ids, zipped, count
		h = (h ^ uint64(len(ids))) * 1099511628211
		h = (h ^ uint64(e.Bytes)) * 1099511628211
		if err != nil {
			viol("undecodable", fmt.Sprintf("pack #%d: %v", e.Seq, err))
			continue
		}
		if count != len(ids) {
			viol("record-count", fmt.Sprintf("pack #%d says RecordCount=%d but contains %d records %v", e.Seq, count, len(ids), ids))
		}
		// threshold in force: the configured one; after a reload that moved it, the old one for
		// packs handed over before the reload began, the new one for packs all of whose records
		// were added after it had returned, either in between
		zipOK := zipped == (payload >= d.ZipMin)
		if d.Zip2 != 0 && d.ReconfCall != 0 {
			okNew := zipped == (payload >= d.Zip2)
			allAfter := d.ReconfRet != 0 && len(ids) > 0
			for _, id := range ids {
				if r := d.byID[id]; r == nil || r.Call <= d.ReconfRet {
					allAfter = false
				}
			}
			switch {
			case e.Stamp < d.ReconfCall:
			case allAfter:
				zipOK = okNew
				rc.Probe("pack_under_reloaded_zip_min")
			default:
				zipOK = zipOK || okNew
			}
		}
		if !zipOK {
			viol("compression-threshold", fmt.Sprintf("pack #%d: payload %d bytes, compressed=%v, minimum size in force %d (after reload %d)", e.Seq, payload, zipped, d.ZipMin, d.Zip2))
		}
		if payload == d.ZipMin || payload == d.ZipMin-1 || payload == d.ZipMin+1 {
			rc.Probe("payload_at_threshold")
		}
		for _, id := range ids {
			emitted[id]++
			if e.Via == "direct" {
				directOrder = append(directOrder, id)
			} else {
				queueOrder = append(queueOrder, id)
			}
		}
		// aliasing: what the client holds must not change after hand-over
		now := pack.ToBytesPack(e.p)
		if !bytes.Equal(now, e.atHand) {
			viol("aliasing", fmt.Sprintf("pack #%d (records %v) changed after it was handed to the client: %d bytes at hand-over, content differs at the end of the run", e.Seq, ids, len(e.atHand)))
		}
		if e.Seq+1 < len(d.Emits) {
			rc.Probe("retained_pack_followed_by_append")
		}
		// flush triggers (queue path): a batch is handed over when a trigger is due, not earlier
		if e.Via == "queue" && len(ids) > 0 {
			cum := 0
			for i := range ids {
				cum += encs[i]
				if i < len(ids)-1 {
					if cum >= d.MaxBuf {
						viol("late-flush-size", fmt.Sprintf("pack #%d: buffer reached %d >= limit %d after record %d but %d more records were appended", e.Seq, cum, d.MaxBuf, ids[i], len(ids)-1-i))
						break
					}
					_, hi := waitLoHi(e.Stamp)
					// a record whose Add began after the reload had returned is appended under the
					// reloaded waiting time, whenever its batch was opened
					if r := d.byID[ids[i]]; r != nil && d.Wait2 != 0 && d.ReconfRet != 0 && r.Call > d.ReconfRet {
						hi = d.Wait2
						rc.Probe("append_after_reload_in_open_batch")
					}
					if i > 0 && times[0] != 0 && times[i]-times[0] >= hi {
						viol("late-flush-age", fmt.Sprintf("pack #%d: record %d is %d ms younger than the first buffered record (wait in force at its append %d ms) but the batch was not flushed at its append", e.Seq, ids[i], times[i]-times[0], hi))
						break
					}
				}
			}
			last := len(ids) - 1
			bySize := cum >= d.MaxBuf
			wlo, _ := waitLoHi(e.Stamp)
			byAge := last > 0 && times[0] != 0 && times[last]-times[0] >= wlo
			lastRec := d.byID[ids[last]]
			byIdle := lastRec != nil && e.AtMs-lastRec.AddMs >= wlo-2
			byCancel := d.CancelStamp != 0 && e.Stamp > d.CancelStamp
			switch {
			case bySize:
				rc.Probe("flush_by_size")
			case byAge:
				rc.Probe("flush_by_age")
			case byCancel:
				rc.Probe("flush_by_cancel")
			case byIdle:
				rc.Probe("flush_by_idle")
			default:
				viol("premature-flush", fmt.Sprintf("pack #%d (records %v, %d payload bytes) was handed over at %d ms although no trigger was due: buffer limit %d not reached, age %d ms < wait %d ms, last record added at %d ms, no cancel", e.Seq, ids, cum, e.AtMs, d.MaxBuf, times[last]-times[0], d.WaitMs, lastRec.AddMs))
			}
		}
		if e.Via == "direct" && len(d.Emits) > 1 {
			rc.Probe("senddirect_split")
		}
	}
	rc.OutcomeHash = h
	// exactly once
	for _, r := range d.Recs {
		if d.refused[r.ID] {
			r.Refused = true
			rc.Probe("queue_refused")
			if emitted[r.ID] > 0 {
				viol("refused-but-emitted", fmt.Sprintf("record %d was refused by the queue yet emitted", r.ID))
			}
			continue
		}
		n := emitted[r.ID]
		if r.Bad {
			continue // may be dropped; what matters is that the batches stay consistent
		}
		if n > 1 {
			viol("duplicate-record", fmt.Sprintf("record %d emitted %d times", r.ID, n))
		}
		if n == 0 {
			if r.Return == 0 {
				continue
			}
			if d.CancelStamp != 0 && r.Return > d.CancelStamp {
				continue // raced with or followed the stop: exempt
			}
			if d.CancelStamp != 0 {
				viol("lost-at-stop", fmt.Sprintf("record %d (Add returned at stamp %d, before the stop at stamp %d) was never emitted", r.ID, r.Return, d.CancelStamp))
			} else {
				viol("lost-record", fmt.Sprintf("record %d was accepted but not emitted within wait time + one poll after the producers stopped", r.ID))
			}
		}
	}
	for _, id := range sortedInts(emitted) {
		if r := d.byID[id]; r != nil {
			if exp := c16Record(id, r.Size, r.TimeMs).Content; c16Contents[id] != exp {
				viol("undecodable", fmt.Sprintf("record %d does not decode back to what was handed in: content %.60q (%d bytes), expected %.60q (%d bytes)", id, c16Contents[id], len(c16Contents[id]), exp, len(exp)))
			}
		}
		if d.byID[id] == nil {
			viol("phantom-record", fmt.Sprintf("record %d emitted but never handed in", id))
		}
	}
	// order: per producer (queue path), and batch order (direct path)
	lastPos := map[int]int{}
	for pos, id := range queueOrder {
		r := d.byID[id]
		if r == nil {
			continue
		}
		if lp, ok := lastPos[r.Task]; ok && d.byID[queueOrder[lp]].ID > id {
			viol("order", fmt.Sprintf("producer task %d: record %d emitted after record %d", r.Task, id, queueOrder[lp]))
		}
		lastPos[r.Task] = pos
	}
	for i := 1; i < len(directOrder); i++ {
		if directOrder[i] < directOrder[i-1] {
			viol("order", fmt.Sprintf("SendDirect batch: record %d emitted after record %d", directOrder[i], directOrder[i-1]))
		}
	}
	if !d.Configured && d.QueueCap != 1000 {
		viol("default-queue-size", fmt.Sprintf("with no configuration applied the queue capacity is %d, the built-in default is 1000", d.QueueCap))
	}
}
