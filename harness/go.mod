module verifsim

go 1.23

// Placeholder: bin/check builds with -modfile=<scratch>/harness.mod, which points the
// replace directive at the instrumented scratch copy of /repo.
require (
	github.com/anishathalye/porcupine v1.3.0
	github.com/whatap/golib v0.0.0
)

replace github.com/whatap/golib => /repo
