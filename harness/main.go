// simrun: deterministic-simulation harness for whatap/golib.
//
//	simrun -prop C11 -tier quick -seed N -workers 16 -evidence /verif/evidence/C11.json   (master)
//	simrun -worker ...                                                                     (internal)
//	simrun -replay replays/C11-123.json                                                    (fresh-process replay)
package main

import (
	"bytes"
	"encoding/binary"
	"encoding/json"
	"flag"
	"fmt"
	"os"
	"os/exec"
	"path/filepath"
	"runtime"
	"sort"
	"strconv"
	"strings"
	"sync"
	"syscall"
	"time"

	"github.com/whatap/golib/zzverif/simrt"
)

type tierCfg struct {
	Runs    int // total runs
	MaxWall int // seconds, safety cap for exploration
}

// per-property budgets (runs are the budget; the wall cap is only a safety net)
var tiers = map[string]map[string]tierCfg{}

func setTier(prop string, quickRuns, quickWall, thoroughRuns, thoroughWall int) {
	tiers[prop] = map[string]tierCfg{"quick": {quickRuns, quickWall}, "thorough": {thoroughRuns, thoroughWall}}
}

type workerSummary struct {
	Runs         int               `json:"runs"`
	Steps        int64             `json:"steps"`
	Switches     int64             `json:"switches"`
	VirtualNs    int64             `json:"virtual_ns"`
	Faults       map[string]int    `json:"faults"`
	Probes       map[string]int    `json:"probes"`
	Policies     map[string]int    `json:"policies"`
	Scenarios    map[string]int    `json:"scenarios"`
	Stepcaps     int               `json:"stepcaps"`
	Inconclusive int               `json:"inconclusive"`
	HarnessRaces int               `json:"harness_races"`
	Viols        []*RunReport      `json:"viols"`
	ViolCount    map[string]int    `json:"viol_count"` // sig -> occurrences
	Samples      []interface{}     `json:"samples"`
	Machinery    string            `json:"machinery"`
	Hashes       map[string]uint64 `json:"hashes"` // run index -> hash (only for determinism selftest ranges)
	FpFile       string            `json:"fp_file"`
	CellFile     string            `json:"cell_file"`
	WallS        float64           `json:"wall_s"`
}

var devNoMin bool

func seedOf(base uint64, i int) uint64 { return simrt.Mix64(base, uint64(i)+0x5151) }

func main() {
	var (
		prop     = flag.String("prop", "", "property id")
		tier     = flag.String("tier", "quick", "quick|thorough")
		seed     = flag.Uint64("seed", 1, "base seed (VERIF_SEED)")
		workers  = flag.Int("workers", runtime.NumCPU(), "worker processes")
		evidence = flag.String("evidence", "", "evidence file to write")
		replay   = flag.String("replay", "", "replay file")
		asJSON   = flag.Bool("json", false, "replay: print the run report as JSON")
		worker   = flag.Bool("worker", false, "internal")
		from     = flag.Int("from", 0, "internal: first run index")
		step     = flag.Int("step", 1, "internal: stride")
		runs     = flag.Int("runs", 0, "override total runs")
		maxwall  = flag.Int("maxwall", 0, "override wall cap (s)")
		hashes   = flag.Bool("hashes", false, "internal: report per-run hashes")
		scratch  = flag.String("scratch", "", "scratch dir for worker files")
		replays  = flag.String("replays", "/verif/replays", "directory for replay files")
		known    = flag.String("known", "/verif/known_findings.json", "known findings file")
		only     = flag.String("scenario", "", "restrict to one scenario name")
		selftest = flag.Bool("selftest", false, "determinism self-test")
		list     = flag.Bool("list", false, "list scenarios")
		genSeed  = flag.Uint64("gen", 0, "development: run this run-seed once (generation mode) with trace and print it")
		genCell  = flag.Int("cell", 0, "development: cell for -gen")
		nomin    = flag.Bool("nomin", false, "development: list all violation signatures, do not minimise (exit 3)")
	)
	flag.Parse()
	simrt.WatchdogSeconds = 120
	simrt.WatchdogDumpDir = os.Getenv("SIMRUN_DUMP_DIR")
	if *list {
		for p, ss := range scenarios {
			for _, s := range ss {
				fmt.Println(p, s.Name)
			}
		}
		return
	}
	if *replay != "" {
		os.Exit(doReplay(*replay, *asJSON))
	}
	if *prop == "" {
		fatal2("need -prop")
	}
	scs := scenarios[*prop]
	if *only != "" {
		var f []*Scenario
		for _, s := range scs {
			if s.Name == *only {
				f = append(f, s)
			}
		}
		scs = f
	}
	if len(scs) == 0 {
		fatal2("no scenario for property %s in this build (race=%v)", *prop, simrt.RaceBuild)
	}
	tc, ok := tiers[*prop][*tier]
	if !ok {
		tc = tierCfg{2000, 120}
	}
	if *runs > 0 {
		tc.Runs = *runs
	}
	if *maxwall > 0 {
		tc.MaxWall = *maxwall
	}
	if *genSeed != 0 {
		rep := runOne(scs[0], *genSeed, nil, true, *genCell)
		for _, ln := range rep.Trace {
			fmt.Println(ln)
		}
		js, _ := json.MarshalIndent(rep.Sample, "", " ")
		fmt.Println("case:", string(js))
		for _, v := range rep.Viols {
			fmt.Printf("violation: oracle=%s sig=%s\n  %s\n", v.Oracle, v.Sig, firstLines(v.Msg, 40))
		}
		return
	}
	if *worker {
		runWorker(scs, *seed, *from, *step, tc, *hashes, *scratch)
		return
	}
	if *scratch == "" {
		d, err := os.MkdirTemp("", "simrun-")
		if err != nil {
			fatal2("%v", err)
		}
		defer os.RemoveAll(d)
		*scratch = d
	}
	if *selftest {
		os.Exit(doSelftest(*prop, *seed, *scratch, *runs, *only))
	}
	devNoMin = *nomin
	os.Exit(runMaster(*prop, *tier, *seed, *workers, tc, *evidence, *scratch, *replays, *known, *only))
}

// ---------------------------------------------------------------- worker

// addressSpaceLimit (bytes) per property: hostile length fields must not be able to take
// the whole machine down; beyond the limit the Go runtime dies with "out of memory", which
// the master attributes to the run in progress.
var addressSpaceLimit = map[string]uint64{}

func runWorker(scs []*Scenario, base uint64, from, step int, tc tierCfg, wantHashes bool, scratch string) {
	if lim := addressSpaceLimit[scs[0].Prop]; lim > 0 && !simrt.RaceBuild {
		syscall.Setrlimit(syscall.RLIMIT_AS, &syscall.Rlimit{Cur: lim, Max: lim})
	}
	if simrt.RaceBuild {
		if lp := os.Getenv("SIMRUN_RACELOG"); lp != "" {
			raceLogPath = lp + "." + strconv.Itoa(os.Getpid())
		}
	}
	start := time.Now()
	sum := &workerSummary{Faults: map[string]int{}, Probes: map[string]int{}, Policies: map[string]int{},
		Scenarios: map[string]int{}, ViolCount: map[string]int{}, Hashes: map[string]uint64{}}
	fps := map[uint64]struct{}{}
	cells := map[string]struct{}{}
	deadline := start.Add(time.Duration(tc.MaxWall) * time.Second)
	var progFile *os.File
	for i := from; i < tc.Runs; i += step {
		if time.Now().After(deadline) {
			break
		}
		sc, cell := pickScenario(scs, i)
		// progress marker: if the process dies inside this run (unrecoverable runtime error in
		// the code under test), the master attributes the death to it
		// one small fixed-size pwrite into a file kept open: not torn by a dying process, and no
		// directory operations (16 workers creating/renaming files in one directory serialise in
		// the kernel and dominated the run time)
		if progFile == nil {
			progFile, _ = os.OpenFile(filepath.Join(scratch, fmt.Sprintf("prog-%d.txt", from%step)), os.O_CREATE|os.O_WRONLY|os.O_TRUNC, 0644)
		}
		if progFile != nil {
			rec := fmt.Sprintf("%-127s\n", fmt.Sprintf("%d %d %s %d", i, seedOf(base, i), sc.Name, cell))
			progFile.WriteAt([]byte(rec), 0)
		}
		if tw := os.Getenv("SIMRUN_TEST_WATCHDOG"); tw != "" && tw == strconv.Itoa(i) {
			// development: exercise the master's handling of a watchdog exit (once per scratch dir,
			// or every time with SIMRUN_TEST_WATCHDOG_ALWAYS)
			mk := filepath.Join(scratch, "test-watchdog-fired")
			if _, err := os.Stat(mk); err != nil || os.Getenv("SIMRUN_TEST_WATCHDOG_ALWAYS") != "" {
				os.WriteFile(mk, nil, 0644)
				fmt.Fprintln(os.Stderr, "simrt watchdog: simulated for testing")
				os.Exit(2)
			}
		}
		rep := runOne(sc, seedOf(base, i), nil, false, cell)
		sum.Runs++
		sum.Steps += rep.Steps
		sum.Switches += rep.Switches
		sum.VirtualNs += rep.VirtualNs
		sum.Scenarios[sc.Name]++
		sum.Policies[simrt.PolicyName(rep.Policy)]++
		sum.HarnessRaces += rep.HarnessRaces
		for k, v := range rep.Faults {
			sum.Faults[k] += v
		}
		for k, v := range rep.Probes {
			sum.Probes[k] += v
		}
		if rep.Stepcap {
			sum.Stepcaps++
		}
		sum.Inconclusive += rep.Inconclusive
		if rep.Machinery != "" {
			sum.Machinery = fmt.Sprintf("run %d seed %d scenario %s: %s", i, rep.Seed, sc.Name, rep.Machinery)
			break
		}
		if rep.NonTrivial {
			fps[rep.Hash] = struct{}{}
		}
		for _, c := range rep.Cells {
			cells[c] = struct{}{}
		}
		if wantHashes {
			sum.Hashes[strconv.Itoa(i)] = rep.Hash
		}
		if len(sum.Samples) < 2 && rep.NonTrivial && rep.Sample != nil {
			sum.Samples = append(sum.Samples, map[string]interface{}{"scenario": sc.Name, "seed": rep.Seed, "policy": simrt.PolicyName(rep.Policy), "steps": rep.Steps, "switches": rep.Switches, "case": rep.Sample})
		}
		if len(rep.Viols) > 0 {
			seen := false
			for _, v := range rep.Viols {
				sum.ViolCount[v.Sig]++
				if sum.ViolCount[v.Sig] == 1 {
					seen = true
				}
			}
			if seen && len(sum.Viols) < 40 {
				rep.Sample = nil
				sum.Viols = append(sum.Viols, rep)
				// also persist it at once: if the code under test later kills this process the
				// summary is lost, the finding must not be
				if js, err := json.Marshal(rep); err == nil {
					if f, err := os.OpenFile(filepath.Join(scratch, fmt.Sprintf("viol-%d.jsonl", from%step)), os.O_APPEND|os.O_CREATE|os.O_WRONLY, 0644); err == nil {
						f.Write(append(js, '\n'))
						f.Close()
					}
				}
			}
		}
	}
	// fingerprints to a binary file
	fp := filepath.Join(scratch, fmt.Sprintf("fp-%d.bin", from))
	var buf bytes.Buffer
	for h := range fps {
		binary.Write(&buf, binary.LittleEndian, h)
	}
	os.WriteFile(fp, buf.Bytes(), 0644)
	sum.FpFile = fp
	if len(cells) > 0 {
		cf := filepath.Join(scratch, fmt.Sprintf("cells-%d.txt", from))
		var sb strings.Builder
		for c := range cells {
			sb.WriteString(c + "\n")
		}
		os.WriteFile(cf, []byte(sb.String()), 0644)
		sum.CellFile = cf
	}
	sum.WallS = time.Since(start).Seconds()
	js, _ := json.Marshal(sum)
	os.Stdout.Write(js)
	os.Stdout.Write([]byte("\n"))
}

// pickScenario maps a run index to (scenario, cell): enumerating scenarios get their cells
// first, one run each; the remaining indices sample the other scenarios round-robin.
func pickScenario(scs []*Scenario, i int) (*Scenario, int) {
	var sampled []*Scenario
	for _, s := range scs {
		if s.Cells > 0 {
			if i < s.Cells {
				return s, i
			}
			i -= s.Cells
		} else if s.Rare == 0 {
			sampled = append(sampled, s)
		}
	}
	for _, s := range scs {
		if s.Cells == 0 && s.Rare > 0 && (i%s.Rare == s.Rare-1 || len(sampled) == 0) {
			return s, 0
		}
	}
	if len(sampled) == 0 {
		s := scs[0]
		return s, i % s.Cells
	}
	return sampled[i%len(sampled)], 0
}

// ---------------------------------------------------------------- master

type knownFinding struct {
	Property string `json:"property"`
	Sig      string `json:"sig"`
	What     string `json:"what"`
}

type knownFile struct {
	Known []knownFinding `json:"known"`
	Fixed []string       `json:"fixed"`
}

func loadKnown(path string) *knownFile {
	kf := &knownFile{}
	b, err := os.ReadFile(path)
	if err != nil {
		return kf
	}
	if err := json.Unmarshal(b, kf); err != nil {
		fatal2("known findings file %s: %v", path, err)
	}
	return kf
}

func (kf *knownFile) match(prop, sig string) *knownFinding {
	for i := range kf.Known {
		if kf.Known[i].Property == prop && globMatch(kf.Known[i].Sig, sig) {
			return &kf.Known[i]
		}
	}
	return nil
}

// globMatch: '*' in the pattern matches any run of characters.
func globMatch(pat, s string) bool {
	parts := strings.Split(pat, "*")
	if len(parts) == 1 {
		return pat == s
	}
	if !strings.HasPrefix(s, parts[0]) {
		return false
	}
	s = s[len(parts[0]):]
	for i := 1; i < len(parts)-1; i++ {
		j := strings.Index(s, parts[i])
		if j < 0 {
			return false
		}
		s = s[j+len(parts[i]):]
	}
	return strings.HasSuffix(s, parts[len(parts)-1])
}

func spawnWorkers(prop, tier string, seed uint64, workers int, tc tierCfg, scratch string, hashes bool, gomaxprocs int, only string) ([]*workerSummary, error) {
	exe, _ := os.Executable()
	var wg sync.WaitGroup
	sums := make([]*workerSummary, workers)
	errs := make([]error, workers)
	for k := 0; k < workers; k++ {
		wg.Add(1)
		go func(k int) {
			defer wg.Done()
			args := []string{"-worker", "-prop", prop, "-tier", tier, "-seed", strconv.FormatUint(seed, 10),
				"-from", strconv.Itoa(k), "-step", strconv.Itoa(workers), "-runs", strconv.Itoa(tc.Runs),
				"-maxwall", strconv.Itoa(tc.MaxWall), "-scratch", scratch}
			if hashes {
				args = append(args, "-hashes")
			}
			if only != "" {
				args = append(args, "-scenario", only)
			}
			from := k
			var acc *workerSummary
			lastWatchdog, watchdogs := -1, 0
			// findings a dead incarnation had persisted
			mergePersisted := func() {
				if acc == nil {
					acc = &workerSummary{Faults: map[string]int{}, Probes: map[string]int{}, Policies: map[string]int{}, Scenarios: map[string]int{}, ViolCount: map[string]int{}}
				}
				if vb, err := os.ReadFile(filepath.Join(scratch, fmt.Sprintf("viol-%d.jsonl", k))); err == nil {
					for _, ln := range strings.Split(strings.TrimSpace(string(vb)), "\n") {
						rr := &RunReport{}
						if ln != "" && json.Unmarshal([]byte(ln), rr) == nil && len(rr.Viols) > 0 {
							dup := false
							for _, have := range acc.Viols {
								if have.Seed == rr.Seed && have.Viols[0].Sig == rr.Viols[0].Sig {
									dup = true
								}
							}
							if !dup {
								acc.Viols = append(acc.Viols, rr)
								for _, v := range rr.Viols {
									acc.ViolCount[v.Sig]++
								}
							}
						}
					}
				}
			}
			for attempt := 0; ; attempt++ {
				for ai := range args {
					if args[ai] == "-from" {
						args[ai+1] = strconv.Itoa(from)
					}
				}
				cmd := exec.Command(exe, args...)
				cmd.Env = append(os.Environ(), "SIMRUN_DUMP_DIR="+scratch, "SIMRUN_RACELOG="+filepath.Join(scratch, "race"),
					"GORACE=log_path="+filepath.Join(scratch, "race")+" halt_on_error=0 exitcode=0 history_size=2")
				if gomaxprocs > 0 {
					cmd.Env = append(cmd.Env, "GOMAXPROCS="+strconv.Itoa(gomaxprocs))
				}
				var out, eb bytes.Buffer
				cmd.Stdout = &out
				cmd.Stderr = &eb
				err := cmd.Run()
				if err != nil {
					es := eb.String()
					death := ""
					// unrecoverable runtime failures of the process while it executes code under test
					for _, marker := range []string{"fatal error: out of memory", "fatal error: runtime: out of memory", "cannot allocate memory", "pthread_create failed", "fatal error: concurrent map", "fatal error: stack overflow", "goroutine stack exceeds", "fatal error: ", "SIGABRT", "signal: killed", "signal: aborted"} {
						if strings.Contains(es, marker) || strings.Contains(err.Error(), marker) {
							death = marker
							break
						}
					}
					if strings.Contains(es, "simrt watchdog") || strings.Contains(es, "machinery error") || strings.Contains(es, "all goroutines are asleep") {
						death = "" // the simulator's own trouble, never a verdict
					}
					pb, perr := os.ReadFile(filepath.Join(scratch, fmt.Sprintf("prog-%d.txt", k)))
					var pi, pcell int
					var pseed uint64
					var pscen string
					if perr == nil {
						fmt.Sscanf(string(pb), "%d %d %s %d", &pi, &pseed, &pscen, &pcell)
					}
					if strings.Contains(es, "simrt watchdog") && perr == nil && pseed != 0 && pi != lastWatchdog && watchdogs < 3 {
						// a real goroutine of the simulator got stuck (machinery trouble, never a verdict).
						// Run the same run again in a fresh process: if it hangs again the trouble is
						// reproducible and the check gives up (exit 2); otherwise exploration goes on and
						// the incident is counted in the evidence.
						lastWatchdog = pi
						watchdogs++
						os.WriteFile(filepath.Join(scratch, fmt.Sprintf("incident-watchdog-%d-%d.txt", k, pi)), []byte(es), 0644)
						mergePersisted()
						acc.Probes["machinery_watchdog_restart"]++
						acc.Runs += (pi - from) / workers
						from = pi
						continue
					}
					if death != "" && perr == nil && attempt >= 20 && acc != nil {
						// the code under test keeps killing the worker: enough evidence, stop exploring in this slot
						sums[k] = acc
						return
					}
					if death != "" && perr == nil && pseed == 0 {
						perr = fmt.Errorf("unreadable progress marker %q", string(pb))
					}
					if death == "" || perr != nil {
						errs[k] = fmt.Errorf("worker %d (attempt %d, from %d): %v [death=%q progress=%q perr=%v]\nstdout tail: %s\nstderr head: %s\nstderr tail: %s", k, attempt, from, err, death, string(pb), perr, tail(out.String(), 2000), head(es, 3000), tail(es, 3000))
						return
					}
					// the code under test killed the process: that is a violation of the run in progress
					mergePersisted()
					sig := "process-death:" + pscen
					acc.ViolCount[sig]++
					acc.Runs++
					if acc.ViolCount[sig] == 1 {
						acc.Viols = append(acc.Viols, &RunReport{Scenario: pscen, Cell: pcell, Seed: pseed, Gen: true, Tape: simrt.Tape{Seed: pseed},
							Viols: []*Violation{{prop, "process-death", sig, "the worker process died with an unrecoverable runtime error while executing this run (" + death + "):\n" + head(es, 2500)}}})
					}
					from = pi + workers
					if from >= tc.Runs {
						sums[k] = acc
						return
					}
					continue
				}
				lines := strings.Split(strings.TrimSpace(out.String()), "\n")
				s := &workerSummary{}
				if err := json.Unmarshal([]byte(lines[len(lines)-1]), s); err != nil {
					errs[k] = fmt.Errorf("worker %d: bad summary: %v: %s", k, err, tail(out.String(), 500))
					return
				}
				if acc != nil {
					// merge what earlier (dead) incarnations of this worker reported
					s.Runs += acc.Runs
					for sg, n := range acc.ViolCount {
						s.ViolCount[sg] += n
					}
					s.Viols = append(s.Viols, acc.Viols...)
					for pk, n := range acc.Probes {
						if s.Probes == nil {
							s.Probes = map[string]int{}
						}
						s.Probes[pk] += n
					}
				}
				sums[k] = s
				return
			}
		}(k)
	}
	wg.Wait()
	var firstErr error
	for k, e := range errs {
		if e != nil {
			if firstErr == nil {
				firstErr = e
			}
			// keep what the failed worker had persisted: a finding is a fact independent of
			// the trouble another run ran into afterwards
			acc := &workerSummary{Faults: map[string]int{}, Probes: map[string]int{}, Policies: map[string]int{}, Scenarios: map[string]int{}, ViolCount: map[string]int{}}
			if vb, err := os.ReadFile(filepath.Join(scratch, fmt.Sprintf("viol-%d.jsonl", k))); err == nil {
				for _, ln := range strings.Split(strings.TrimSpace(string(vb)), "\n") {
					rr := &RunReport{}
					if ln != "" && json.Unmarshal([]byte(ln), rr) == nil && len(rr.Viols) > 0 {
						acc.Viols = append(acc.Viols, rr)
						for _, v := range rr.Viols {
							acc.ViolCount[v.Sig]++
						}
					}
				}
			}
			sums[k] = acc
		}
	}
	return sums, firstErr
}

func head(s string, n int) string {
	if len(s) > n {
		return s[:n]
	}
	return s
}

func tail(s string, n int) string {
	if len(s) > n {
		return s[len(s)-n:]
	}
	return s
}

func runMaster(prop, tier string, seed uint64, workers int, tc tierCfg, evidence, scratch, replays, known, only string) int {
	start := time.Now()
	kf := loadKnown(known)
	sums, workerErr := spawnWorkers(prop, tier, seed, workers, tc, scratch, false, 0, only)
	// keep the post-mortem material of machinery incidents (watchdog dumps) next to the replays
	for _, pat := range []string{"incident-*.txt", "watchdog-*.txt"} {
		ms, _ := filepath.Glob(filepath.Join(scratch, pat))
		for _, m := range ms {
			if b, err := os.ReadFile(m); err == nil {
				os.MkdirAll(replays, 0755)
				os.WriteFile(filepath.Join(replays, prop+"-"+filepath.Base(m)), b, 0644)
			}
		}
	}
	if workerErr != nil {
		anyViol := false
		for _, s := range sums {
			if s != nil && len(s.Viols) > 0 {
				anyViol = true
			}
		}
		fmt.Fprintln(os.Stderr, workerErr)
		if !anyViol {
			return 2
		}
		fmt.Fprintln(os.Stderr, "simrun: WARNING: a worker ran into machinery trouble (above); violations found by the batch are still confirmed and reported")
	}
	// determinism spot check: first 8 runs again, single worker, other GOMAXPROCS
	detRuns := 8
	if tc.Runs < detRuns {
		detRuns = tc.Runs
	}
	d1, err1 := spawnWorkers(prop, tier, seed, 1, tierCfg{detRuns, tc.MaxWall}, scratch, true, 1, only)
	d2, err2 := spawnWorkers(prop, tier, seed, 1, tierCfg{detRuns, tc.MaxWall}, scratch, true, 4, only)
	mism := 0
	if (err1 != nil || err2 != nil) && workerErr == nil {
		fmt.Fprintln(os.Stderr, "determinism re-run failed:", err1, err2)
		return 2
	}
	if err1 != nil || err2 != nil {
		d1, d2 = []*workerSummary{{Hashes: map[string]uint64{}}}, []*workerSummary{{Hashes: map[string]uint64{}}}
	}
	for k, v := range d1[0].Hashes {
		if d2[0].Hashes[k] != v {
			mism++
		}
	}
	if mism > 0 {
		fmt.Fprintf(os.Stderr, "simrun: determinism self-check failed: %d of %d re-run seeds differ between processes\n", mism, detRuns)
		return 2
	}

	agg := &workerSummary{Faults: map[string]int{}, Probes: map[string]int{}, Policies: map[string]int{}, Scenarios: map[string]int{}, ViolCount: map[string]int{}}
	fps := map[uint64]struct{}{}
	cells := map[string]struct{}{}
	var maxWall float64
	for _, s := range sums {
		if s.Machinery != "" {
			fmt.Fprintln(os.Stderr, "simrun: machinery error:", s.Machinery)
			return 2
		}
		agg.Runs += s.Runs
		agg.Steps += s.Steps
		agg.Switches += s.Switches
		agg.VirtualNs += s.VirtualNs
		agg.Stepcaps += s.Stepcaps
		agg.Inconclusive += s.Inconclusive
		agg.HarnessRaces += s.HarnessRaces
		for k, v := range s.Faults {
			agg.Faults[k] += v
		}
		for k, v := range s.Probes {
			agg.Probes[k] += v
		}
		for k, v := range s.Policies {
			agg.Policies[k] += v
		}
		for k, v := range s.Scenarios {
			agg.Scenarios[k] += v
		}
		for k, v := range s.ViolCount {
			agg.ViolCount[k] += v
		}
		agg.Viols = append(agg.Viols, s.Viols...)
		if len(agg.Samples) < 3 {
			agg.Samples = append(agg.Samples, s.Samples...)
		}
		if s.WallS > maxWall {
			maxWall = s.WallS
		}
		if b, err := os.ReadFile(s.FpFile); err == nil {
			for i := 0; i+8 <= len(b); i += 8 {
				fps[binary.LittleEndian.Uint64(b[i:])] = struct{}{}
			}
		}
		if s.CellFile != "" {
			if b, err := os.ReadFile(s.CellFile); err == nil {
				for _, c := range strings.Split(strings.TrimSpace(string(b)), "\n") {
					if c != "" {
						cells[c] = struct{}{}
					}
				}
			}
		}
	}
	if len(agg.Samples) > 3 {
		agg.Samples = agg.Samples[:3]
	}

	// classify violations
	sort.Slice(agg.Viols, func(i, j int) bool { return agg.Viols[i].Seed < agg.Viols[j].Seed })
	knownSeen := map[string]bool{}
	var unknown []*RunReport
	unknownSig := map[string]bool{}
	for _, r := range agg.Viols {
		for _, v := range r.Viols {
			if k := kf.match(v.Property, v.Sig); k != nil {
				if !knownSeen[v.Sig] {
					knownSeen[v.Sig] = true
					fmt.Printf("KNOWN-FINDING: property=%s %s [%s] (seen %d times this run)\n", v.Property, k.What, v.Sig, agg.ViolCount[v.Sig])
				}
			} else if !unknownSig[sigClass(v.Sig)] {
				unknownSig[sigClass(v.Sig)] = true
				rr := *r
				rr.Viols = []*Violation{v}
				unknown = append(unknown, &rr)
			}
		}
	}
	exit := 0
	var replayPaths []string
	if devNoMin {
		for _, r := range unknown {
			fmt.Printf("NEW %s x%d scenario=%s seed=%d cell=%d\n", r.Viols[0].Sig, agg.ViolCount[r.Viols[0].Sig], r.Scenario, r.Seed, r.Cell)
			if os.Getenv("SIMRUN_VERBOSE") != "" {
				fmt.Printf("    %s\n", firstLines(r.Viols[0].Msg, 45))
			}
		}
		if len(unknown) > 0 {
			exit = 3
		}
		unknown = nil
	}
	if len(unknown) > 0 {
		os.MkdirAll(replays, 0755)
		max := 3 // minimise and report up to three distinct new violations
		// synchronous violations first; a process death is attributed to the run that was in
		// progress, which can be wrong when the runtime dies asynchronously (e.g. a thread
		// cannot be created after an earlier run filled the address space)
		sort.SliceStable(unknown, func(i, j int) bool { return !unknown[i].Gen && unknown[j].Gen })
		unattributed := 0
		reported := 0
		for _, r := range unknown {
			if reported >= max {
				fmt.Printf("(further distinct violation not minimised: %s)\n", r.Viols[0].Sig)
				continue
			}
			path, rc := minimiseAndWrite(prop, r, replays, scratch)
			if rc == 3 {
				unattributed++
				fmt.Printf("WARNING: a worker process died (%s) but the run in progress (seed %d) does not die when replayed alone; not reported as such\n", r.Viols[0].Sig, r.Seed)
				continue
			}
			if rc == 2 {
				return 2
			}
			reported++
			replayPaths = append(replayPaths, path)
			fmt.Printf("VIOLATION property=%s replay=%s\n", prop, path)
			fmt.Printf("  oracle=%s sig=%s\n  %s\n", r.Viols[0].Oracle, r.Viols[0].Sig, firstLines(r.Viols[0].Msg, 12))
			exit = 1
		}
		if workerErr != nil && exit == 0 {
			return 2
		}
		if unattributed > 0 && exit == 0 {
			fmt.Fprintln(os.Stderr, "simrun: machinery error: worker processes died but no death could be attributed to a replayable run and no other violation was found")
			return 2
		}
	}

	if workerErr != nil && exit == 0 {
		return 2 // machinery trouble and nothing it could report: cannot decide
	}
	wall := time.Since(start).Seconds()
	if evidence != "" {
		writeEvidence(evidence, prop, tier, seed, agg, len(fps), len(cells), wall, maxWall, detRuns, mism, knownSeen, len(unknown), workers)
	}
	var dead []string
	for _, p := range probesFor[prop] {
		if agg.Probes[p] == 0 && agg.Faults[p] == 0 {
			dead = append(dead, p)
		}
	}
	for _, p := range dead {
		fmt.Printf("WARNING: probe %q never fired in this run (coverage is thinner than intended)\n", p)
	}
	fmt.Printf("simrun: property=%s tier=%s seed=%d runs=%d steps=%d switches=%d distinct_nontrivial=%d virtual_s=%.1f wall_s=%.1f stepcaps=%d known=%d new=%d\n",
		prop, tier, seed, agg.Runs, agg.Steps, agg.Switches, len(fps)+len(cells), float64(agg.VirtualNs)/1e9, wall, agg.Stepcaps, len(knownSeen), len(unknown))
	return exit
}

func firstLines(s string, n int) string {
	ls := strings.Split(s, "\n")
	if len(ls) > n {
		ls = append(ls[:n], "...")
	}
	return strings.Join(ls, "\n  ")
}

// probesFor lists the rare-situation probes expected to fire per property.
var probesFor = map[string][]string{}

var levelOf = map[string]string{}
var ruleOf = map[string]string{}
var assumptionsOf = map[string][]string{}
var realComponents = map[string][]string{}
var stubComponents = map[string][]string{}

func writeEvidence(path, prop, tier string, seed uint64, agg *workerSummary, nfp, ncells int, wall, exploreWall float64, detRuns, mism int, knownSeen map[string]bool, nUnknown, workers int) {
	level := levelOf[prop]
	if level == "" {
		level = "exploration"
	}
	var ks []string
	for k := range knownSeen {
		ks = append(ks, k)
	}
	sort.Strings(ks)
	var dead []string
	for _, p := range probesFor[prop] {
		if agg.Probes[p] == 0 && agg.Faults[p] == 0 {
			dead = append(dead, p)
		}
	}
	rph := 0.0
	if exploreWall > 0 {
		rph = float64(agg.Runs) / exploreWall * 3600
	}
	samples := agg.Samples
	if len(samples) == 0 {
		samples = []interface{}{"(no non-trivial sample captured)"}
	}
	cov := map[string]interface{}{
		"evaluations":                  agg.Runs,
		"distinct_nontrivial":          nfp + ncells,
		"rule":                         ruleOf[prop],
		"samples":                      samples,
		"runs_per_hour":                int64(rph),
		"sim_seconds_covered":          float64(agg.VirtualNs) / 1e9,
		"steps":                        agg.Steps,
		"context_switches":             agg.Switches,
		"faults_fired":                 agg.Faults,
		"probes":                       agg.Probes,
		"dead_probes":                  dead,
		"policies":                     agg.Policies,
		"scenarios":                    agg.Scenarios,
		"stepcap_runs":                 agg.Stepcaps,
		"inconclusive":                 agg.Inconclusive,
		"harness_race_reports_ignored": agg.HarnessRaces,
		"determinism":                  map[string]int{"seeds_rerun": detRuns, "mismatches": mism},
		"real_components":              realComponents[prop],
		"stub_components":              stubComponents[prop],
		"known_findings_seen":          ks,
		"workers":                      workers,
		"race_build":                   simrt.RaceBuild,
		"exhaustive":                   false,
	}
	ev := map[string]interface{}{
		"property_id": prop,
		"tier":        tier,
		"seed":        int64(seed & 0x7fffffffffffffff),
		"level":       level,
		"coverage":    cov,
		"assumptions": assumptionsOf[prop],
		"wall_s":      wall,
		"violations":  nUnknown,
	}
	b, _ := json.MarshalIndent(ev, "", " ")
	os.MkdirAll(filepath.Dir(path), 0755)
	if err := os.WriteFile(path, b, 0644); err != nil {
		fatal2("cannot write evidence: %v", err)
	}
}

// ---------------------------------------------------------------- replay files

type replayFile struct {
	Property  string      `json:"property"`
	Scenario  string      `json:"scenario"`
	Seed      uint64      `json:"seed"`
	Cell      int         `json:"cell"`
	Gen       bool        `json:"gen,omitempty"`
	Tape      simrt.Tape  `json:"tape"`
	Violation *Violation  `json:"violation"`
	Trace     []string    `json:"trace,omitempty"`
	Case      interface{} `json:"case,omitempty"`
	RaceBuild bool        `json:"race_build"`
	Note      string      `json:"note,omitempty"`
}

// doReplay runs a replay file in this (fresh) process.
func doReplay(path string, asJSON bool) int {
	b, err := os.ReadFile(path)
	if err != nil {
		fatal2("%v", err)
	}
	rf := &replayFile{}
	if err := json.Unmarshal(b, rf); err != nil {
		fatal2("replay file: %v", err)
	}
	sc := findScenario(rf.Property, rf.Scenario)
	if sc == nil {
		fatal2("scenario %s/%s not in this build", rf.Property, rf.Scenario)
	}
	if simrt.RaceBuild {
		if lp := os.Getenv("SIMRUN_RACELOG"); lp != "" {
			raceLogPath = lp + "." + strconv.Itoa(os.Getpid())
		}
	}
	tape := rf.Tape
	tp := &tape
	if rf.Gen {
		tp = nil // regenerate the run from its seed
	}
	if lim := addressSpaceLimit[rf.Property]; lim > 0 && !simrt.RaceBuild {
		syscall.Setrlimit(syscall.RLIMIT_AS, &syscall.Rlimit{Cur: lim, Max: lim})
	}
	rep := runOne(sc, rf.Seed, tp, true, rf.Cell)
	if asJSON {
		js, _ := json.Marshal(rep)
		fmt.Println(string(js))
		return 0
	}
	if rep.Machinery != "" {
		fmt.Println("machinery:", rep.Machinery)
		return 2
	}
	for _, ln := range rep.Trace {
		fmt.Println(ln)
	}
	if rep.Sample != nil {
		js, _ := json.MarshalIndent(rep.Sample, "", " ")
		fmt.Println("case:", string(js))
	}
	want := ""
	if rf.Violation != nil {
		want = rf.Violation.Sig
	}
	hit := false
	for _, v := range rep.Viols {
		fmt.Printf("violation: oracle=%s sig=%s\n  %s\n", v.Oracle, v.Sig, firstLines(v.Msg, 30))
		if v.Sig == want || want == "" {
			hit = true
		}
	}
	if hit {
		fmt.Printf("VIOLATION property=%s replay=%s\n", rf.Property, path)
		return 1
	}
	fmt.Println("replay: no violation with the recorded signature")
	return 0
}

// replayInFresh runs a tape in a fresh subprocess and returns its report.
func replayInFresh(prop, scen string, cell int, seed uint64, tape *simrt.Tape, scratch string, id int) (*RunReport, error) {
	rf := &replayFile{Property: prop, Scenario: scen, Cell: cell, Seed: seed, Tape: *tape}
	b, _ := json.Marshal(rf)
	p := filepath.Join(scratch, fmt.Sprintf("cand-%d-%d.json", os.Getpid(), id))
	if err := os.WriteFile(p, b, 0644); err != nil {
		return nil, err
	}
	defer os.Remove(p)
	exe, _ := os.Executable()
	cmd := exec.Command(exe, "-replay", p, "-json")
	rl := filepath.Join(scratch, fmt.Sprintf("racec-%d-%d", os.Getpid(), id))
	cmd.Env = append(os.Environ(), "SIMRUN_RACELOG="+rl, "GORACE=log_path="+rl+" halt_on_error=0 exitcode=0 history_size=2")
	var out, eb bytes.Buffer
	cmd.Stdout = &out
	cmd.Stderr = &eb
	err := cmd.Run()
	matches, _ := filepath.Glob(rl + ".*")
	for _, m := range matches {
		os.Remove(m)
	}
	if err != nil {
		return nil, fmt.Errorf("replay subprocess: %v: %s", err, tail(eb.String(), 3000))
	}
	lines := strings.Split(strings.TrimSpace(out.String()), "\n")
	rep := &RunReport{}
	if err := json.Unmarshal([]byte(lines[len(lines)-1]), rep); err != nil {
		return nil, fmt.Errorf("replay subprocess output: %v", err)
	}
	return rep, nil
}

// sigClass maps a signature to the class that must persist while minimising and when a
// replay is verified. For data races the reporting entry points ("via ...") are dropped:
// which of several racing callers ThreadSanitizer names first is not fully deterministic
// (its shadow cells evict pseudo-randomly), the racing pair of accesses is.
func sigClass(sig string) string {
	if !strings.HasPrefix(sig, "race:") {
		return sig
	}
	parts := strings.Split(strings.TrimPrefix(sig, "race:"), "|")
	for i := range parts {
		if j := strings.Index(parts[i], " via "); j >= 0 {
			parts[i] = parts[i][:j]
		}
	}
	sort.Strings(parts)
	return "race:" + strings.Join(parts, "|")
}

func hasSig(rep *RunReport, sig string) *Violation {
	for _, v := range rep.Viols {
		if v.Sig == sig {
			return v
		}
	}
	for _, v := range rep.Viols {
		if sigClass(v.Sig) == sigClass(sig) {
			return v
		}
	}
	return nil
}

// minimiseAndWrite shrinks the failing tape (fresh subprocess per candidate), writes the
// replay file and verifies that it reproduces in a fresh process.
func minimiseAndWrite(prop string, r *RunReport, replays, scratch string) (string, int) {
	sig := r.Viols[0].Sig
	if r.Gen {
		// process death: no tape was recorded. The replay file regenerates the run from its
		// seed; reproduction = the fresh replay process dies the same way.
		rf := &replayFile{Property: prop, Scenario: r.Scenario, Cell: r.Cell, Gen: true, Seed: r.Seed, Tape: simrt.Tape{Seed: r.Seed}, Violation: r.Viols[0],
			RaceBuild: simrt.RaceBuild, Note: "process death: replay regenerates the run from its seed; expect the replay process itself to die with the same runtime error"}
		b, _ := json.MarshalIndent(rf, "", " ")
		path := filepath.Join(replays, fmt.Sprintf("%s-%d.json", prop, r.Seed))
		if err := os.WriteFile(path, b, 0644); err != nil {
			fmt.Fprintln(os.Stderr, "simrun:", err)
			return "", 2
		}
		exe, _ := os.Executable()
		cmd := exec.Command(exe, "-replay", path, "-json")
		var eb bytes.Buffer
		cmd.Stderr = &eb
		err := cmd.Run()
		if err == nil || !(strings.Contains(eb.String(), "fatal error") || strings.Contains(eb.String(), "SIGABRT")) {
			os.Remove(path)
			return "", 3 // asynchronous death: not attributable to this run alone
		}
		return path, 1
	}
	best := r.Tape
	// first: confirm in a fresh process with the recorded tape
	rep0, err := replayInFresh(prop, r.Scenario, r.Cell, r.Seed, &best, scratch, 0)
	if err != nil {
		fmt.Fprintln(os.Stderr, "simrun:", err)
		return "", 2
	}
	if hasSig(rep0, sig) == nil {
		fmt.Fprintf(os.Stderr, "simrun: machinery error: violation %q (scenario %s seed %d) did not reproduce from its recorded tape in a fresh process\n", sig, r.Scenario, r.Seed)
		return "", 2
	}
	best = rep0.Tape
	bestRep := rep0
	budget := 240
	id := 1
	try := func(cands []simrt.Tape) bool {
		// evaluate candidates in parallel, accept the first (in order) that still fails
		type res struct {
			rep *RunReport
			err error
		}
		out := make([]res, len(cands))
		var wg sync.WaitGroup
		sem := make(chan struct{}, runtime.NumCPU())
		for i := range cands {
			wg.Add(1)
			id++
			go func(i, id int) {
				defer wg.Done()
				sem <- struct{}{}
				defer func() { <-sem }()
				rp, err := replayInFresh(prop, r.Scenario, r.Cell, r.Seed, &cands[i], scratch, id)
				out[i] = res{rp, err}
			}(i, id)
		}
		wg.Wait()
		budget -= len(cands)
		for i := range cands {
			if out[i].err == nil && out[i].rep != nil && out[i].rep.Machinery == "" && hasSig(out[i].rep, sig) != nil {
				if tapeSize(&out[i].rep.Tape) < tapeSize(&best) || tapeSum(&out[i].rep.Tape) < tapeSum(&best) {
					best = out[i].rep.Tape
					bestRep = out[i].rep
					return true
				}
			}
		}
		return false
	}
	get := func(t *simrt.Tape, which int) []simrt.Pair {
		switch which {
		case 0:
			return t.S
		case 1:
			return t.F
		}
		return t.W
	}
	set := func(t simrt.Tape, which int, p []simrt.Pair) simrt.Tape {
		switch which {
		case 0:
			t.S = p
		case 1:
			t.F = p
		default:
			t.W = p
		}
		return t
	}
	for round := 0; round < 3 && budget > 0; round++ {
		progress := false
		for which := 0; which < 3 && budget > 0; which++ {
			// chunk removal, halving chunk size
			for n := 2; budget > 0; n *= 2 {
				ps := get(&best, which)
				if len(ps) == 0 {
					break
				}
				if n > len(ps) {
					n = len(ps)
				}
				chunk := (len(ps) + n - 1) / n
				var cands []simrt.Tape
				if n == 2 {
					cands = append(cands, set(best, which, nil))
				}
				for s := 0; s < len(ps); s += chunk {
					e := s + chunk
					if e > len(ps) {
						e = len(ps)
					}
					np := append(append([]simrt.Pair{}, ps[:s]...), ps[e:]...)
					cands = append(cands, set(best, which, np))
				}
				if len(cands) > 32 {
					cands = cands[:32]
				}
				if try(cands) {
					progress = true
					n = 1 // restart with coarse chunks on the new, smaller tape
					continue
				}
				if chunk == 1 {
					break
				}
			}
			// value lowering
			ps := get(&best, which)
			var cands []simrt.Tape
			for i := range ps {
				if ps[i].V > 1 {
					np := append([]simrt.Pair{}, ps...)
					np[i].V = ps[i].V / 2
					cands = append(cands, set(best, which, np))
					np2 := append([]simrt.Pair{}, ps...)
					np2[i].V = 1
					cands = append(cands, set(best, which, np2))
				}
				if len(cands) >= 32 {
					break
				}
			}
			if len(cands) > 0 && budget > 0 && try(cands) {
				progress = true
			}
		}
		if !progress {
			break
		}
	}
	// structural deletion on the workload stream: drop a window of k consecutive draws and
	// shift the later ones down (an operation that costs a fixed number of draws disappears,
	// the rest of the plan keeps its meaning)
	extra := 160
	for _, k := range []int{12, 8, 6, 4, 3, 2, 1} {
		for again := true; again && extra > 0; {
			again = false
			ps := best.W
			if len(ps) == 0 {
				break
			}
			maxI := ps[len(ps)-1].I
			var cands []simrt.Tape
			for start := 0; start <= maxI && len(cands) < 32; start += k {
				var np []simrt.Pair
				changed := false
				for _, pr := range ps {
					switch {
					case pr.I < start:
						np = append(np, pr)
					case pr.I >= start+k:
						np = append(np, simrt.Pair{I: pr.I - k, V: pr.V})
						changed = true
					default:
						changed = true
					}
				}
				if changed {
					cands = append(cands, set(best, 2, np))
				}
			}
			if len(cands) == 0 {
				break
			}
			saved := budget
			budget = extra
			ok := try(cands)
			extra = budget
			budget = saved
			if ok {
				again = true
			}
		}
	}
	// final: write and verify
	v := hasSig(bestRep, sig)
	rf := &replayFile{Property: prop, Scenario: r.Scenario, Cell: r.Cell, Seed: r.Seed, Tape: best, Violation: v,
		Trace: bestRep.Trace, Case: bestRep.Sample, RaceBuild: simrt.RaceBuild,
		Note: fmt.Sprintf("minimised from %d to %d tape entries; replay with: bin/check %s --replay <this file>", tapeSize(&r.Tape), tapeSize(&best), prop)}
	b, _ := json.MarshalIndent(rf, "", " ")
	path := filepath.Join(replays, fmt.Sprintf("%s-%d.json", prop, r.Seed))
	if err := os.WriteFile(path, b, 0644); err != nil {
		fmt.Fprintln(os.Stderr, "simrun:", err)
		return "", 2
	}
	final, err := replayInFresh(prop, r.Scenario, r.Cell, r.Seed, &best, scratch, id+1)
	for try := 0; try < 2 && err == nil && hasSig(final, sig) == nil && strings.HasPrefix(sig, "race:"); try++ {
		final, err = replayInFresh(prop, r.Scenario, r.Cell, r.Seed, &best, scratch, id+2+try)
	}
	if err != nil || hasSig(final, sig) == nil {
		fmt.Fprintf(os.Stderr, "simrun: machinery error: minimised replay %s does not reproduce %q in a fresh process (%v)\n", path, sig, err)
		return "", 2
	}
	if final.Hash != bestRep.Hash {
		fmt.Fprintf(os.Stderr, "simrun: machinery error: replay %s reproduces the violation but not the same execution (hash %x vs %x)\n", path, final.Hash, bestRep.Hash)
		return "", 2
	}
	return path, 1
}

func tapeSize(t *simrt.Tape) int { return len(t.W) + len(t.S) + len(t.F) }
func tapeSum(t *simrt.Tape) uint64 {
	var s uint64
	for _, p := range t.W {
		s += uint64(p.V)
	}
	for _, p := range t.S {
		s += uint64(p.V)
	}
	for _, p := range t.F {
		s += uint64(p.V)
	}
	return s
}

// ---------------------------------------------------------------- determinism self-test

func doSelftest(prop string, seed uint64, scratch string, runs int, only string) int {
	if runs <= 0 {
		runs = 200
	}
	tc := tierCfg{runs, 600}
	var ref map[string]uint64
	bad := 0
	for _, gmp := range []int{1, 4, 16} {
		for rep := 0; rep < 2; rep++ {
			s, err := spawnWorkers(prop, "quick", seed, 1, tc, scratch, true, gmp, only)
			if err != nil {
				fmt.Fprintln(os.Stderr, err)
				return 2
			}
			if ref == nil {
				ref = s[0].Hashes
				continue
			}
			for k, v := range ref {
				if s[0].Hashes[k] != v {
					bad++
					fmt.Printf("selftest: run %s differs under GOMAXPROCS=%d (rep %d)\n", k, gmp, rep)
				}
			}
		}
	}
	fmt.Printf("selftest: property=%s runs=%d x 6 processes (GOMAXPROCS 1,4,16), mismatches=%d\n", prop, runs, bad)
	if bad > 0 {
		return 2
	}
	return 0
}
