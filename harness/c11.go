package main

import (
	"fmt"
	"strconv"
	"strings"
	"time"

	"github.com/anishathalye/porcupine"
	"github.com/whatap/golib/util/dateutil"
	"github.com/whatap/golib/util/queue"
	"github.com/whatap/golib/zzverif/simrt"
)

// ---- C11: request queues are bounded FIFOs that lose, duplicate or strand nothing ----

func init() {
	setTier("C11", 200000, 150, 6000000, 1500)
	levelOf["C11"] = "exploration"
	ruleOf["C11"] = "one run = one seeded scenario (queue kind, capacity incl. zero and negative = unbounded, prologue, 1-3 producers and 1-3 consumers with 1-4 ops each) under one seeded schedule (plus: callbacks installed or not, timed gets up to 1 s, producers pausing up to 1.2 s, a neighbour queue, server-time-sync faults); non-trivial = at least one context switch happened while a task was inside a recorded queue operation; distinct = distinct FNV fingerprint of (context-switch sequence as (task, file:line), fault sequence, recorded history outcome)"
	assumptionsOf["C11"] = []string{
		"preemption is possible between any two statements of the instrumented packages (util/queue, util/list, util/dateutil) and inside lock/cond/sleep operations, not inside a single statement",
		"sync.Mutex/sync.Cond/time.Sleep/time.Now are replaced by simulator models with the documented semantics (no spurious Cond wake-ups, mutex barging allowed)",
		"a timed get is judged on the millisecond clock the queue itself reads (dateutil.SystemNow)",
		"SetCapacity is called at arbitrary points of the sequential prologue history, never concurrently with other calls (concurrently it is a configuration race outside the statement: a SetCapacity(0) landing inside an evicting PutForce makes it spin forever)",
		"the return value of a forced put that had to evict is unconstrained (the statement does not give it)",
	}
	realComponents["C11"] = []string{"util/queue.RequestQueue", "util/queue.RequestDoubleQueue", "util/list.LinkedList", "util/dateutil (clock reads via virtual clock)"}
	stubComponents["C11"] = []string{"sync.Mutex", "sync.Cond", "time.Sleep/time.Now (virtual clock)", "goroutine scheduler"}
	probesFor["C11"] = []string{"consumer_parked_before_first_producer", "broadcast_woke_two", "evicted_more_than_one", "gettimeout_zero_sleep_tail", "put_refused", "timed_get_expired", "blocked_on_lock_held_inside_op"}
	register(&Scenario{Prop: "C11", Name: "single", MaxSteps: 400000, Body: c11Body(false), After: c11After, StepcapIsViolation: true})
	register(&Scenario{Prop: "C11", Name: "double", MaxSteps: 400000, Body: c11Body(true), After: c11After, StepcapIsViolation: true})
}

type qOp struct {
	Task   int    `json:"task"`
	Kind   string `json:"op"`
	Arg    int    `json:"arg,omitempty"` // element for puts, timeout ms for timed get
	Ret    int    `json:"ret"`           // element returned (0 = nil) / 1,0 for bool
	CB     []int  `json:"cb,omitempty"`  // elements handed to Failed/Overflowed during this op
	CBKind string `json:"cbkind,omitempty"`
	Call   int64  `json:"call"`
	Return int64  `json:"return"` // 0 = pending at end of run
	CallMs int64  `json:"-"`
	RetMs  int64  `json:"-"`
	Phase  string `json:"phase,omitempty"`
}

type c11Data struct {
	Double    bool   `json:"double"`
	Cap1      int    `json:"cap1"`
	Cap2      int    `json:"cap2"`
	CBMode    int    `json:"callbacks_missing,omitempty"`
	Ops       []*qOp `json:"ops"`
	cur       map[int]*qOp
	Stranded  string `json:"stranded,omitempty"`
	FinalSize int    `json:"final_size"`
}

//go:norace
func (d *c11Data) begin(task int, kind string, arg int, phase string) *qOp {
	op := &qOp{Task: task, Kind: kind, Arg: arg, Phase: phase}
	d.Ops = append(d.Ops, op)
	d.cur[task] = op
	op.CallMs = dateutil.SystemNow()
	simrt.SetOp(len(d.Ops))
	op.Call = simrt.Stamp()
	return op
}

//go:norace
func (d *c11Data) end(op *qOp, ret int) {
	op.Ret = ret
	op.Return = simrt.Stamp()
	simrt.SetOp(0)
	op.RetMs = dateutil.SystemNow()
	delete(d.cur, op.Task)
}

//go:norace
func (d *c11Data) callback(kind string, v interface{}) {
	t := simrt.Cur()
	if t == nil {
		return
	}
	if op := d.cur[t.ID]; op != nil {
		op.CB = append(op.CB, v.(int))
		op.CBKind = kind
	}
}

func b2i(b bool) int {
	if b {
		return 1
	}
	return 0
}

func elem(v interface{}) int {
	if v == nil {
		return 0
	}
	return v.(int)
}

type queueAPI struct {
	put      func(which int, v int) bool
	putForce func(which int, v int) bool
	get      func() interface{}
	getNoW   func() interface{}
	getTO    func(ms int) interface{}
	clear    func()
	size     func() int
}

func c11Body(double bool) func(rc *RunCtx) {
	return func(rc *RunCtx) {
		d := &c11Data{Double: double, cur: map[int]*qOp{}}
		rc.Data = d
		caps := []int{2, 1, 0, 5, 3, -1} // 0 and negative: unbounded
		d.Cap1 = caps[simrt.Choose(len(caps))]
		d.Cap2 = caps[simrt.Choose(len(caps))]
		var api queueAPI
		var setCap func(c1, c2 int)
		if !double {
			q := queue.NewRequestQueue(d.Cap1)
			// callbacks are optional: bit 0 = no Failed, bit 1 = no Overflowed installed
			d.CBMode = []int{0, 0, 3, 1, 2}[simrt.Choose(5)]
			if d.CBMode&1 == 0 {
				q.Failed = func(v interface{}) { d.callback("failed", v) }
			}
			if d.CBMode&2 == 0 {
				q.Overflowed = func(v interface{}) { d.callback("overflowed", v) }
			}
			api = queueAPI{
				put:      func(_ int, v int) bool { return q.Put(v) },
				putForce: func(_ int, v int) bool { return q.PutForce(v) },
				get:      q.Get, getNoW: q.GetNoWait, getTO: q.GetTimeout, clear: q.Clear, size: q.Size,
			}
			setCap = func(c1, _ int) { q.SetCapacity(c1) }
		} else {
			q := queue.NewRequestDoubleQueue(d.Cap1, d.Cap2)
			// the double queue's callbacks are unexported and cannot be set: observed via return values only
			api = queueAPI{
				put: func(w int, v int) bool {
					if w == 2 {
						return q.Put2(v)
					}
					return q.Put1(v)
				},
				putForce: func(w int, v int) bool {
					if w == 2 {
						return q.PutForce2(v)
					}
					return q.PutForce1(v)
				},
				get: q.Get, getNoW: q.GetNoWait, getTO: q.GetTimeout, clear: q.Clear, size: q.Size,
			}
			setCap = func(c1, c2 int) { q.SetCapacity(c1, c2) }
		}
		nextElem := 100
		// sequential prologue: optional pre-fill, optional capacity lowering
		rootID := simrt.Cur().ID
		if simrt.Chance(1, 3) {
			// a sequential history of mixed calls, set-capacity included (the statement quantifies
			// over set-capacity calls inside sequences; concurrently with other calls it is a
			// configuration race outside the statement)
			n := 1 + simrt.Choose(8)
			for i := 0; i < n; i++ {
				w := 1
				if double && simrt.Chance(1, 2) {
					w = 2
				}
				switch simrt.Choose(8) {
				case 0, 1, 2, 3:
					nextElem++
					op := d.begin(rootID, "put"+qsuffix(double, w), nextElem, "prologue")
					d.end(op, b2i(api.put(w, nextElem)))
				case 4:
					nextElem++
					op := d.begin(rootID, "putforce"+qsuffix(double, w), nextElem, "prologue")
					d.end(op, b2i(api.putForce(w, nextElem)))
				case 5:
					op := d.begin(rootID, "getnowait", 0, "prologue")
					d.end(op, elem(api.getNoW()))
				case 6, 7:
					c := []int{2, 1, 3, 0, 5, -1}[simrt.Choose(6)]
					op := d.begin(rootID, "setcap", c, "prologue")
					setCap(c, c)
					d.end(op, 0)
				}
			}
		}
		nProd := 1 + simrt.Choose(3)
		nCons := 1 + simrt.Choose(3)
		consFirst := simrt.Choose(3) // 0: consumers first, 1: producers first, 2: interleaved creation
		type plan struct {
			kind []string
			arg  []int
			w    []int
		}
		var prods, conss []plan
		total := 0
		for p := 0; p < nProd; p++ {
			n := 1 + simrt.Choose(4)
			var pl plan
			for i := 0; i < n; i++ {
				k := "put"
				if simrt.Chance(1, 3) {
					k = "putforce"
				}
				w := 1
				if double && simrt.Chance(1, 2) {
					w = 2
				}
				nextElem++
				pl.kind = append(pl.kind, k)
				pl.arg = append(pl.arg, nextElem+1000*(p+1))
				pl.w = append(pl.w, w)
			}
			total += n
			prods = append(prods, pl)
		}
		for c := 0; c < nCons; c++ {
			n := 1 + simrt.Choose(4)
			var pl plan
			for i := 0; i < n; i++ {
				var k string
				arg := 0
				switch simrt.Choose(9) {
				case 8:
					k = "getnowait"
				case 0, 1, 2:
					k = "get"
				case 3, 4:
					k = "getnowait"
				case 5, 6:
					k = "gettimeout"
					arg = []int{5, 0, 1, 2, 30, 200, 350, 1000}[simrt.Choose(8)]
				case 7:
					k = "clear"
				}
				pl.kind = append(pl.kind, k)
				pl.arg = append(pl.arg, arg)
			}
			total += n
			conss = append(conss, pl)
		}
		simrt.SetStepsGuess(int64(total) * 60)
		var tasks []*simrt.Task
		var consTasks []*simrt.Task
		startProd := func(p int) {
			pl := prods[p]
			t := simrt.GoNamed("prod"+strconv.Itoa(p+1), func() {
				id := simrt.Cur().ID
				for i := range pl.kind {
					// producers are not always busy: pauses from a millisecond to beyond the
					// longest timed get (elements arriving after a timed get has expired)
					if g := []int{0, 0, 0, 0, 0, 1, 50, 400, 1200}[simrt.ChooseF(9)]; g > 0 {
						simrt.Sleep(time.Duration(g) * time.Millisecond)
					}
					op := d.begin(id, pl.kind[i]+qsuffix(double, pl.w[i]), pl.arg[i], "")
					var r bool
					if pl.kind[i] == "put" {
						r = api.put(pl.w[i], pl.arg[i])
					} else {
						r = api.putForce(pl.w[i], pl.arg[i])
					}
					d.end(op, b2i(r))
				}
			})
			tasks = append(tasks, t)
		}
		startCons := func(c int) {
			pl := conss[c]
			t := simrt.GoNamed("cons"+strconv.Itoa(c+1), func() {
				id := simrt.Cur().ID
				for i := range pl.kind {
					op := d.begin(id, pl.kind[i], pl.arg[i], "")
					switch pl.kind[i] {
					case "get":
						d.end(op, elem(api.get()))
					case "getnowait":
						d.end(op, elem(api.getNoW()))
					case "gettimeout":
						d.end(op, elem(api.getTO(pl.arg[i])))
					case "clear":
						api.clear()
						d.end(op, 0)
					case "setcap":
						setCap(pl.arg[i], pl.arg[i])
						d.end(op, 0)
					}
				}
			})
			tasks = append(tasks, t)
			consTasks = append(consTasks, t)
		}
		switch consFirst {
		case 0:
			for c := range conss {
				startCons(c)
			}
			if simrt.Chance(1, 2) {
				simrt.WaitIdle() // consumers park before the first producer exists
				for _, t := range consTasks {
					if b, w := t.Blocked(); b && w == "cond" {
						simrt.Probe("consumer_parked_before_first_producer")
						break
					}
				}
			}
			for p := range prods {
				startProd(p)
			}
		case 1:
			for p := range prods {
				startProd(p)
			}
			for c := range conss {
				startCons(c)
			}
		default:
			for i := 0; i < nProd || i < nCons; i++ {
				if i < nCons {
					startCons(i)
				}
				if i < nProd {
					startProd(i)
				}
			}
		}
		// a neighbour: a second, independent queue of the same type used by one task of its
		// own. Used alone it must behave exactly like a sequential bounded FIFO, whatever
		// happens to the queue under test (no state shared between instances).
		if simrt.ChanceF(1, 3) {
			ncap := 1 + simrt.ChooseF(3)
			nops := 3 + simrt.ChooseF(8)
			nilElems := simrt.ChooseF(3) == 0
			box := func(v int) interface{} {
				if v == 0 {
					return nil
				}
				return v
			}
			var nput func(v int) bool
			var nforce func(v int) bool
			var nget func() interface{}
			var nclear func()
			var nsize func() int
			if !double {
				nq := queue.NewRequestQueue(ncap)
				nput, nforce, nget, nclear, nsize = func(v int) bool { return nq.Put(box(v)) }, func(v int) bool { return nq.PutForce(box(v)) }, nq.GetNoWait, nq.Clear, nq.Size
			} else {
				nq := queue.NewRequestDoubleQueue(ncap, ncap)
				nput, nforce, nget, nclear, nsize = func(v int) bool { return nq.Put2(box(v)) }, func(v int) bool { return nq.PutForce2(box(v)) }, nq.GetNoWait, nq.Clear, nq.Size
			}
			simrt.GoNamed("neighbour", func() {
				var model []int
				bad := func(what string) {
					rc.Violate("C11", "instance-leak", "instance-leak:"+map[bool]string{false: "RequestQueue", true: "RequestDoubleQueue"}[double],
						"a second queue used by a single task while the first one is busy misbehaved: "+what)
				}
				for i := 0; i < nops; i++ {
					v := 9000 + i
					if nilElems && simrt.ChooseF(4) == 0 {
						v = 0 // the untyped nil: legal, unusual; a get then returns nil and the size shrinks
					}
					switch simrt.ChooseF(6) {
					case 0, 1:
						ok := nput(v)
						if ok != (len(model) < ncap) {
							bad(fmt.Sprintf("Put(%d) returned %v with %d of %d held", v, ok, len(model), ncap))
						}
						if ok {
							model = append(model, v)
						}
					case 2:
						nforce(v)
						for len(model) >= ncap {
							model = model[1:]
						}
						model = append(model, v)
					case 3, 4:
						got := elem(nget())
						want := 0
						if len(model) > 0 {
							want, model = model[0], model[1:]
						}
						if got != want {
							bad(fmt.Sprintf("GetNoWait returned %d, the neighbour's own history requires %d", got, want))
						}
					default:
						if simrt.ChooseF(3) == 0 {
							nclear()
							model = nil
						}
					}
					if s := nsize(); s != len(model) {
						bad(fmt.Sprintf("Size is %d, the neighbour's own history requires %d", s, len(model)))
					}
				}
			})
		}
		// environment fault: the agent's server-time synchronisation moves dateutil's global
		// offset while consumers may be inside a timed get (the queue must not care)
		if simrt.ChanceF(1, 4) {
			nSync := 1 + simrt.ChooseF(2)
			simrt.OnReset(func() { dateutil.SetDelta(0) })
			simrt.GoNamed("timesync", func() {
				for i := 0; i < nSync; i++ {
					simrt.Sleep(time.Duration(simrt.ChooseF(40000)) * time.Microsecond)
					dateutil.SetDelta([]int64{3000, -3000, 50, -50, 600000}[simrt.ChooseF(5)])
					simrt.Fault("server_time_sync")
				}
			})
		}
		// quiescence: let everything run, including producers' pauses and timed gets
		simrt.Settle(int64(12 * time.Second))
		// no stranding: nobody may be parked in a blocking get while the queue holds elements
		sz := api.size()
		d.FinalSize = sz
		for _, t := range consTasks {
			if b, w := t.Blocked(); b && w == "cond" && sz > 0 {
				d.Stranded = fmt.Sprintf("%s is parked in Get() while the queue holds %d element(s) and no other task can run", t.Name, sz)
			}
		}
		// final read-out: drain
		for i := 0; i < 64; i++ {
			op := d.begin(rootID, "getnowait", 0, "drain")
			v := elem(api.getNoW())
			d.end(op, v)
			if v == 0 {
				break
			}
		}
		// probes
		for _, op := range d.Ops {
			if len(op.CB) > 1 {
				simrt.Probe("evicted_more_than_one")
			}
			if strings.HasPrefix(op.Kind, "put") && !strings.HasPrefix(op.Kind, "putforce") && op.Ret == 0 && op.Return != 0 {
				simrt.Probe("put_refused")
			}
			if op.Kind == "gettimeout" && op.Return != 0 && op.Ret == 0 {
				simrt.Probe("timed_get_expired")
				if op.Arg >= 1 {
					simrt.Probe("gettimeout_zero_sleep_tail")
				}
			}
		}
	}
}

func qsuffix(double bool, w int) string {
	if !double {
		return ""
	}
	return strconv.Itoa(w)
}

// ---- model ----

type qState struct {
	q1, q2 string // comma separated element lists
	c1, c2 int    // capacities in force
}

func qlist(s string) []string {
	if s == "" {
		return nil
	}
	return strings.Split(s, ",")
}

func c11Model(cap1, cap2 int, failedOn, overflowOn bool) porcupine.Model {
	return porcupine.Model{
		Init: func() interface{} { return qState{c1: cap1, c2: cap2} },
		Step: func(state, input, output interface{}) (bool, interface{}) {
			st := state.(qState)
			op := input.(*qOp)
			capOf := func(w int) int {
				if w == 2 {
					return st.c2
				}
				return st.c1
			}
			if op.Kind == "setcap" {
				st.c1, st.c2 = op.Arg, op.Arg
				return true, st
			}
			kind := op.Kind
			w := 1
			if strings.HasSuffix(kind, "2") {
				w = 2
			}
			kind = strings.TrimRight(kind, "12")
			getq := func() []string {
				if w == 2 {
					return qlist(st.q2)
				}
				return qlist(st.q1)
			}
			setq := func(l []string) {
				if w == 2 {
					st.q2 = strings.Join(l, ",")
				} else {
					st.q1 = strings.Join(l, ",")
				}
			}
			switch kind {
			case "put":
				l := getq()
				c := capOf(w)
				if c <= 0 || len(l) < c {
					if op.Ret != 1 || len(op.CB) != 0 {
						return false, st
					}
					setq(append(l, strconv.Itoa(op.Arg)))
					return true, st
				}
				// refused: returns false, element handed to Failed, content unchanged
				if op.Ret != 0 {
					return false, st
				}
				if failedOn && !(len(op.CB) == 1 && op.CB[0] == op.Arg && op.CBKind == "failed") {
					return false, st
				}
				if !failedOn && len(op.CB) != 0 {
					return false, st
				}
				return true, st
			case "putforce":
				l := getq()
				c := capOf(w)
				if c <= 0 || len(l) < c {
					if op.Ret != 1 || len(op.CB) != 0 {
						return false, st
					}
					setq(append(l, strconv.Itoa(op.Arg)))
					return true, st
				}
				var ev []string
				for len(l) >= c && len(l) > 0 {
					ev = append(ev, l[0])
					l = l[1:]
				}
				if !overflowOn && len(op.CB) != 0 {
					return false, st
				}
				if overflowOn {
					if len(op.CB) != len(ev) || (len(ev) > 0 && op.CBKind != "overflowed") {
						return false, st
					}
					for i := range ev {
						if strconv.Itoa(op.CB[i]) != ev[i] {
							return false, st
						}
					}
				}
				setq(append(l, strconv.Itoa(op.Arg)))
				return true, st // return value unconstrained
			case "get", "getnowait", "gettimeout":
				l1, l2 := qlist(st.q1), qlist(st.q2)
				if op.Ret == 0 {
					if kind == "get" {
						return false, st // a blocking get never returns empty-handed
					}
					return len(l1) == 0 && len(l2) == 0, st
				}
				r := strconv.Itoa(op.Ret)
				if len(l1) > 0 {
					if l1[0] != r {
						return false, st
					}
					st.q1 = strings.Join(l1[1:], ",")
					return true, st
				}
				if len(l2) > 0 && l2[0] == r {
					st.q2 = strings.Join(l2[1:], ",")
					return true, st
				}
				return false, st
			case "clear":
				return true, qState{c1: st.c1, c2: st.c2}
			}
			return false, st
		},
		DescribeOperation: func(input, output interface{}) string {
			op := input.(*qOp)
			return fmt.Sprintf("%s(%d)->%d cb=%v", op.Kind, op.Arg, op.Ret, op.CB)
		},
	}
}

func c11After(rc *RunCtx, res *simrt.Result) {
	d := rc.Data.(*c11Data)
	rc.Sample = d
	var h uint64 = 1469598103934665603
	for _, op := range d.Ops {
		for _, x := range []int64{int64(op.Task), int64(len(op.Kind)), int64(op.Arg), int64(op.Ret), op.Call, op.Return, int64(len(op.CB))} {
			h = (h ^ uint64(x)) * 1099511628211
		}
	}
	rc.OutcomeHash = h
	if d.Stranded != "" {
		rc.Violate("C11", "stranded-consumer", "stranded:"+map[bool]string{false: "RequestQueue", true: "RequestDoubleQueue"}[d.Double], d.Stranded)
	}
	qn := map[bool]string{false: "RequestQueue", true: "RequestDoubleQueue"}[d.Double]
	// direct oracles (readable messages; also cover histories porcupine cannot finish)
	accepted := map[int]bool{}
	delivered := map[int]int{}
	evicted := map[int]int{}
	hasClear := false
	for _, op := range d.Ops {
		k := strings.TrimRight(op.Kind, "12")
		switch k {
		case "put":
			if op.Return != 0 && op.Ret == 1 {
				accepted[op.Arg] = true
			}
			if op.Return == 0 {
				accepted[op.Arg] = true // pending put may have taken effect
			}
		case "putforce":
			accepted[op.Arg] = true
			for _, e := range op.CB {
				evicted[e]++
			}
		case "get", "getnowait", "gettimeout":
			if op.Ret != 0 {
				delivered[op.Ret]++
			}
			if k == "gettimeout" && op.Return != 0 && op.Ret == 0 {
				if el := op.RetMs - op.CallMs; el < int64(op.Arg) {
					rc.Violate("C11", "timed-get-early", "timed-get-early:"+qn,
						fmt.Sprintf("GetTimeout(%d) returned empty-handed after only %d ms on the queue's own clock", op.Arg, el))
				}
			}
		case "clear":
			hasClear = true
		}
	}
	for _, e := range sortedInts(delivered) {
		n := delivered[e]
		if n > 1 {
			rc.Violate("C11", "duplicate-delivery", "duplicate:"+qn, fmt.Sprintf("element %d delivered %d times", e, n))
		}
		if !accepted[e] {
			rc.Violate("C11", "phantom-delivery", "phantom:"+qn, fmt.Sprintf("element %d delivered but never accepted", e))
		}
		if evicted[e] > 0 {
			rc.Violate("C11", "delivered-and-evicted", "deliv-evict:"+qn, fmt.Sprintf("element %d both delivered and reported evicted", e))
		}
	}
	if !hasClear && !d.Double && d.CBMode&2 == 0 {
		for _, e := range sortedInts(accepted) {
			if delivered[e]+evicted[e] == 0 {
				rc.Violate("C11", "lost-element", "lost:"+qn, fmt.Sprintf("element %d was accepted but neither delivered, evicted nor left in the queue at the end", e))
			}
		}
	}
	// linearizability against the independent bounded-FIFO model
	var ops []porcupine.Operation
	for _, op := range d.Ops {
		if op.Return == 0 {
			k := strings.TrimRight(op.Kind, "12")
			if k == "get" || k == "gettimeout" || k == "getnowait" {
				continue // a get that never returned had no observable effect (stranding is checked above)
			}
			continue
		}
		ops = append(ops, porcupine.Operation{ClientId: op.Task, Input: op, Call: op.Call, Output: op.Ret, Return: op.Return})
	}
	if len(ops) <= 40 {
		r := checkLinearizable(c11Model(d.Cap1, d.Cap2, !d.Double && d.CBMode&1 == 0, !d.Double && d.CBMode&2 == 0), ops, 30*time.Second)
		if r == porcupine.Illegal {
			rc.Violate("C11", "linearizability", "nonlinearizable:"+qn, "history is not linearizable w.r.t. the bounded-FIFO model: "+describeQ(d))
		} else if r == porcupine.Unknown {
			rc.Inconclusive++
		}
	} else {
		rc.Inconclusive++
	}
}

func describeQ(d *c11Data) string {
	var sb strings.Builder
	fmt.Fprintf(&sb, "cap1=%d cap2=%d;", d.Cap1, d.Cap2)
	for _, op := range d.Ops {
		fmt.Fprintf(&sb, " [t%d %s(%d)->%d cb=%v @%d..%d]", op.Task, op.Kind, op.Arg, op.Ret, op.CB, op.Call, op.Return)
	}
	return sb.String()
}
