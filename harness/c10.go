package main

import (
	"fmt"
	"reflect"
	"regexp"
	"sort"
	"strconv"
	"strings"
	"time"

	"github.com/anishathalye/porcupine"
	wio "github.com/whatap/golib/io"
	"github.com/whatap/golib/util/hmap"
	"github.com/whatap/golib/util/list"
	"github.com/whatap/golib/util/queue"
	"github.com/whatap/golib/zzverif/simrt"
)

// ---- C10: shared collections are linearizable, race-free and never self-deadlock ----

type lkey int

func (k lkey) Hash() uint                   { return uint(k) }
func (k lkey) Equals(o hmap.LinkedKey) bool { x, ok := o.(lkey); return ok && x == k }
func (k lkey) String() string               { return "L" + strconv.Itoa(int(k)) }

type c10Type struct {
	Name     string
	Variants int                           // constructor variants
	New      func(variant int) interface{} // fresh instance
	HasCap   bool                          // variant>0 gives a tiny initial capacity
}

var c10Types = []c10Type{
	{"IntFloatLinkedMap", 1, func(int) interface{} { return hmap.NewIntFloatLinkedMap() }, false},
	{"IntIntLinkedMap", 1, func(int) interface{} { return hmap.NewIntIntLinkedMap() }, false},
	{"IntIntMap", 3, func(v int) interface{} {
		if v == 0 {
			return hmap.NewIntIntMapDefault()
		}
		return hmap.NewIntIntMap(v, 0.75)
	}, true},
	{"IntKeyLinkedMap", 3, func(v int) interface{} {
		if v == 0 {
			return hmap.NewIntKeyLinkedMapDefault()
		}
		return hmap.NewIntKeyLinkedMap(v, 0.75)
	}, true},
	{"IntKeyMap", 3, func(v int) interface{} {
		if v == 0 {
			return hmap.NewIntKeyMapDefault()
		}
		return hmap.NewIntKeyMap(v, 0.75)
	}, true},
	{"IntLinkedSet", 1, func(int) interface{} { return hmap.NewIntLinkedSet() }, false},
	{"IntSet", 1, func(int) interface{} { return hmap.NewIntSet() }, false},
	{"LinkedMap", 3, func(v int) interface{} {
		if v == 0 {
			return hmap.NewLinkedMapDefault()
		}
		return hmap.NewLinkedMap(v, 0.75)
	}, true},
	{"LinkedSet", 1, func(int) interface{} { return hmap.NewLinkedSet() }, false},
	{"LongFloatLinkedMap", 1, func(int) interface{} { return hmap.NewLongFloatLinkedMap() }, false},
	{"LongKeyLinkedMap", 3, func(v int) interface{} {
		if v == 0 {
			return hmap.NewLongKeyLinkedMapDefault()
		}
		return hmap.NewLongKeyLinkedMap(v, 0.75)
	}, true},
	{"LongLongLinkedMap", 3, func(v int) interface{} {
		if v == 0 {
			return hmap.NewLongLongLinkedMapDefault()
		}
		return hmap.NewLongLongLinkedMap(v, 0.75)
	}, true},
	{"StringIntLinkedMap", 1, func(int) interface{} { return hmap.NewStringIntLinkedMap() }, false},
	{"StringKeyLinkedMap", 1, func(int) interface{} { return hmap.NewStringKeyLinkedMap() }, false},
	{"StringLinkedSet", 1, func(int) interface{} { return hmap.NewStringLinkedSet() }, false},
	{"StringLongLinkedMap", 1, func(int) interface{} { return hmap.NewStringLongLinkedMap() }, false},
	{"StringSet", 1, func(int) interface{} { return hmap.NewStringSet() }, false},
	{"LinkedList", 1, func(int) interface{} { return list.NewLinkedList() }, false},
	{"RequestQueue", 4, func(v int) interface{} { return queue.NewRequestQueue([]int{0, 2, 3, 1}[v]) }, false},
	{"RequestDoubleQueue", 4, func(v int) interface{} {
		return queue.NewRequestDoubleQueue([]int{0, 2, 3, 1}[v], []int{0, 1, 3, 1}[v])
	}, false},
}

// point operations of the statement and their close variants, by method name
var c10PointOps = map[string]bool{
	"Put": true, "PutFirst": true, "PutLast": true, "Put1": true, "Put2": true, "PutForce": true, "PutForce1": true, "PutForce2": true,
	"Add": true, "AddFirst": true, "AddLast": true, "AddNoOver": true, "AddIfExist": true,
	"Get": true, "GetLRU": true, "GetNoWait": true,
	"ContainsKey": true, "Contains": true, "HasKey": true,
	"Remove": true, "RemoveFirst": true, "RemoveLast": true,
	"Clear": true, "Size": true, "IsEmpty": true, "Size1": true, "Size2": true,
}

// c10PanickingCmp: caller-supplied comparators panic on their second call (state 3 of the
// method sweep): the structure must survive a callback that fails
var c10PanickingCmp bool

// longKeys: string keys are 40+ bytes in this run (set per run from the tape; the model
// replays with the same setting because it is stored in the run's data)
var longKeys bool

var linkedKeyType = reflect.TypeOf((*hmap.LinkedKey)(nil)).Elem()

type c10Op struct {
	Task   int    `json:"task"`
	Method string `json:"m"`
	Key    int    `json:"k,omitempty"`
	Val    int    `json:"v,omitempty"`
	Out    string `json:"out"`
	Call   int64  `json:"call"`
	Return int64  `json:"return"`
	Phase  string `json:"phase,omitempty"`
}

type c10Data struct {
	Type     string   `json:"type"`
	Variant  int      `json:"variant"`
	Max      int      `json:"max"`
	Prefill  int      `json:"prefill"`
	LongKeys bool     `json:"long_keys,omitempty"`
	Collide  bool     `json:"colliding_keys,omitempty"`
	Negative bool     `json:"negative_keys,omitempty"`
	Neutral  bool     `json:"content_neutral_whole_op,omitempty"`
	Ops      []*c10Op `json:"ops"`
	Label    string   `json:"label,omitempty"`
	Waiting  string   `json:"waiting,omitempty"`
	Panicked string   `json:"panicked,omitempty"`
	nbM      []string
	nbK, nbV []int
	nbOut    []string
	ti       int
}

// mkArgs synthesises arguments for method m from a key number and a value number.
func mkArgs(name string, mt reflect.Type, key, val int) ([]reflect.Value, bool) {
	n := mt.NumIn()
	args := make([]reflect.Value, n)
	for i := 0; i < n; i++ {
		pt := mt.In(i)
		isKey := (n == 2 && i == 0) || (n == 1 && !strings.Contains(name, "Value"))
		x := val
		if isKey {
			x = key
		}
		switch pt.Kind() {
		case reflect.Int32:
			args[i] = reflect.ValueOf(int32(x))
		case reflect.Int64:
			args[i] = reflect.ValueOf(int64(x))
		case reflect.Int:
			args[i] = reflect.ValueOf(x)
		case reflect.Float32:
			args[i] = reflect.ValueOf(float32(x))
		case reflect.String:
			if isKey {
				if longKeys {
					// long keys: hashing them is not a one-liner (caches, chunked loops)
					args[i] = reflect.ValueOf("key-" + strconv.Itoa(x) + "-" + strings.Repeat("k", 40))
				} else {
					args[i] = reflect.ValueOf("k" + strconv.Itoa(x))
				}
			} else {
				args[i] = reflect.ValueOf("v" + strconv.Itoa(x))
			}
		case reflect.Bool:
			args[i] = reflect.ValueOf(x%2 == 0)
		case reflect.Interface:
			if pt == linkedKeyType {
				args[i] = reflect.ValueOf(lkey(x)).Convert(pt)
			} else {
				v := reflect.New(pt).Elem()
				v.Set(reflect.ValueOf(x))
				args[i] = v
			}
		case reflect.Func:
			// comparator func(a, b K) bool
			calls := 0
			args[i] = reflect.MakeFunc(pt, func(in []reflect.Value) []reflect.Value {
				calls++
				if c10PanickingCmp && calls == 2 {
					panic("comparator: cannot compare these two")
				}
				return []reflect.Value{reflect.ValueOf(fmt.Sprint(in[0].Interface()) < fmt.Sprint(in[1].Interface()))}
			})
		case reflect.Slice:
			sl := reflect.MakeSlice(pt, 2, 2)
			for j := 0; j < 2; j++ {
				switch pt.Elem().Kind() {
				case reflect.Int32:
					sl.Index(j).Set(reflect.ValueOf(int32(key + j)))
				case reflect.String:
					sl.Index(j).Set(reflect.ValueOf(strconv.Itoa(key + j)))
				default:
					return nil, false
				}
			}
			args[i] = sl
		case reflect.Ptr:
			switch pt {
			case reflect.TypeOf((*wio.DataOutputX)(nil)):
				args[i] = reflect.ValueOf(wio.NewDataOutputX())
			case reflect.TypeOf((*wio.DataInputX)(nil)):
				o := wio.NewDataOutputX()
				o.WriteDecimal(0)
				args[i] = reflect.ValueOf(wio.NewDataInputX(o.ToByteArray()))
			case reflect.TypeOf((*hmap.IntKeyMap)(nil)):
				m := hmap.NewIntKeyMapDefault()
				m.Put(int32(key), val)
				args[i] = reflect.ValueOf(m)
			case reflect.TypeOf((*list.LinkedListEntity)(nil)):
				return nil, false
			default:
				return nil, false
			}
		default:
			return nil, false
		}
	}
	return args, true
}

func outString(rs []reflect.Value) string {
	var parts []string
	for _, r := range rs {
		v := r
		for v.Kind() == reflect.Interface && !v.IsNil() {
			v = v.Elem()
		}
		switch v.Kind() {
		case reflect.Ptr, reflect.Func, reflect.Chan, reflect.Map:
			if v.IsNil() {
				parts = append(parts, "<nil>")
			} else {
				parts = append(parts, "<"+v.Type().String()+">")
			}
		case reflect.Interface:
			parts = append(parts, "<nil>")
		default:
			parts = append(parts, fmt.Sprintf("%v", v.Interface()))
		}
	}
	return strings.Join(parts, ",")
}

// invoke calls method name on obj; panics are part of the observable result.
func invoke(obj interface{}, name string, key, val int) (out string) {
	defer func() {
		if r := recover(); r != nil {
			if _, ok := r.(simrt.SelfDeadlock); ok {
				out = "panic:self-deadlock"
				return
			}
			out = "panic:" + strings.SplitN(fmt.Sprint(r), "\n", 2)[0]
		}
	}()
	m := reflect.ValueOf(obj).MethodByName(name)
	if !m.IsValid() {
		return "nomethod"
	}
	args, ok := mkArgs(name, m.Type(), key, val)
	if !ok {
		return "unsupported-args"
	}
	return outString(m.Call(args))
}

// readout appends the sequential read-out of the whole structure: size, every key of the
// domain, and the enumeration order.
func readout(obj interface{}, keys []int) string {
	var sb strings.Builder
	v := reflect.ValueOf(obj)
	has := func(n string) bool { return v.MethodByName(n).IsValid() }
	sb.WriteString("size=" + invoke(obj, "Size", 0, 0))
	for _, k := range keys {
		switch {
		case has("ContainsKey"):
			sb.WriteString(fmt.Sprintf(" %d:%s/%s", k, invoke(obj, "ContainsKey", k, 0), invoke(obj, "Get", k, 0)))
		case has("Contains"):
			sb.WriteString(fmt.Sprintf(" %d:%s", k, invoke(obj, "Contains", k, 0)))
		}
	}
	sb.WriteString(" order=" + enumerate(obj))
	return sb.String()
}

// c10Integrity checks, at quiescence, the minimum a dictionary or set must satisfy whatever
// history produced it ("never corrupts the structure"): the enumeration of its keys has no
// duplicates and as many elements as Size() reports; a key is reported present exactly when
// the enumeration contains it; a bounded instance holds at most its maximum. Independent of
// the sequential self-model (a structure that corrupts itself sequentially in the same way
// would otherwise go unnoticed).
func c10Integrity(obj interface{}, domain []int, max int) (bad string) {
	defer func() {
		if r := recover(); r != nil {
			bad = "panic while reading the structure out: " + strings.SplitN(fmt.Sprint(r), "\n", 2)[0]
		}
	}()
	if ll, ok := obj.(*list.LinkedList); ok {
		// a list: Size() is never negative, ToArray() and a walk from the first node have Size() elements
		size := ll.Size()
		if size < 0 {
			return fmt.Sprintf("Size() is %d", size)
		}
		if n := len(ll.ToArray()); n != size {
			return fmt.Sprintf("Size() is %d but ToArray() has %d elements", size, n)
		}
		n := 0
		for e := ll.GetFirst(); e != nil && n <= size+1; e = ll.GetNext(e) {
			n++
		}
		if n != size {
			return fmt.Sprintf("Size() is %d but a walk from the first node visits %d", size, n)
		}
		return ""
	}
	v := reflect.ValueOf(obj)
	km := v.MethodByName("Keys")
	if (!km.IsValid() || km.Type().NumIn() != 0) && strings.HasSuffix(reflect.TypeOf(obj).String(), "Set") {
		km = v.MethodByName("Values") // a set's values are its elements (IntSet has no Keys)
	}
	if !km.IsValid() || km.Type().NumIn() != 0 {
		return ""
	}
	var member reflect.Value
	var mname string
	for _, n := range []string{"ContainsKey", "Contains", "HasKey"} {
		if m := v.MethodByName(n); m.IsValid() && m.Type().NumIn() == 1 {
			member, mname = m, n
			break
		}
	}
	if !member.IsValid() {
		return ""
	}
	// the enumeration is used through the interface type Keys() declares (the concrete
	// enumerator types also carry value accessors)
	r := km.Call(nil)[0]
	hm := r.MethodByName("HasMoreElements")
	if !hm.IsValid() {
		return ""
	}
	var next reflect.Value
	for _, nn := range []string{"NextInt", "NextLong", "NextString", "NextElement"} {
		if x := r.MethodByName(nn); x.IsValid() {
			next = x
			break
		}
	}
	seen := map[string]int{}
	n := 0
	for i := 0; i < 100000 && hm.Call(nil)[0].Bool(); i++ {
		seen[outString(next.Call(nil))]++
		n++
	}
	size, _ := strconv.Atoi(invoke(obj, "Size", 0, 0))
	if n != size {
		return fmt.Sprintf("Size() is %d but the key enumeration yields %d elements", size, n)
	}
	var ks []string
	for k := range seen {
		ks = append(ks, k)
	}
	sort.Strings(ks)
	for _, k := range ks {
		if seen[k] > 1 {
			return fmt.Sprintf("key %s is enumerated %d times", k, seen[k])
		}
	}
	if max > 0 && size > max && strings.Contains(reflect.TypeOf(obj).String(), "Linked") { // only the linked (LRU) types evict; the others merely report IsFull
		return fmt.Sprintf("holds %d entries although its maximum is %d", size, max)
	}
	for _, k := range domain {
		args, ok := mkArgs(mname, member.Type(), k, 0)
		if !ok {
			return ""
		}
		is := member.Call(args)[0].Bool()
		_, enumerated := seen[outString(args[:1])]
		if is != enumerated {
			return fmt.Sprintf("%s(%s) is %v but the key enumeration %s it", mname, outString(args[:1]), is, map[bool]string{true: "contains", false: "does not contain"}[enumerated])
		}
	}
	return ""
}

func enumerate(obj interface{}) (out string) {
	defer func() {
		if r := recover(); r != nil {
			out += " panic:" + strings.SplitN(fmt.Sprint(r), "\n", 2)[0]
		}
	}()
	v := reflect.ValueOf(obj)
	var parts []string
	for _, en := range []string{"Keys", "Values", "ToArray", "ToString1", "ToString2"} {
		m := v.MethodByName(en)
		if !m.IsValid() || m.Type().NumIn() != 0 {
			continue
		}
		r := m.Call(nil)[0]
		if r.Kind() == reflect.Slice || r.Kind() == reflect.String {
			parts = append(parts, en+"="+fmt.Sprint(r.Interface()))
			continue
		}
		for r.Kind() == reflect.Interface && !r.IsNil() {
			r = r.Elem()
		}
		hm := r.MethodByName("HasMoreElements")
		if !hm.IsValid() {
			continue
		}
		var next reflect.Value
		for _, nn := range []string{"NextInt", "NextLong", "NextString", "NextFloat", "NextElement"} {
			if x := r.MethodByName(nn); x.IsValid() {
				next = x
				break
			}
		}
		var items []string
		for i := 0; i < 10000 && hm.Call(nil)[0].Bool(); i++ {
			items = append(items, outString(next.Call(nil)))
		}
		parts = append(parts, en+"=["+strings.Join(items, " ")+"]")
	}
	return strings.Join(parts, ";")
}

func init() {
	setTier("C10", 50000, 300, 2500000, 1800)
	levelOf["C10"] = "exploration"
	ruleOf["C10"] = "facet A (scenario methods): every exported method of every collection type, found by reflection, on an empty, a populated, a bounded-and-full instance (SetMax / SetCapacity) and one whose caller-supplied callbacks panic (comparators, the queues' Failed/Overflowed) — one simulated run per (type, method, state) cell, enumerated exhaustively each tier; facet B/C (scenario lin): one run = one seeded concurrent history (type, constructor variant, max size, prefill, 2-4 tasks x 2-5 point ops over 2-4 keys with unique values) under one seeded schedule, checked by porcupine against the same type executed sequentially, with ThreadSanitizer watching every access (plus: colliding key sets, a neighbour instance, scenario cross = merges of two instances into each other, scenario whole = a whole-structure operation next to writers, structural integrity read-out at quiescence); non-trivial = a context switch happened inside a recorded operation (lin) or the cell was executed (methods); distinct = distinct fingerprint of (switch sequence, history outcome) plus distinct method cells"
	assumptions := []string{
		"reference model = the same collection type executed sequentially outside the simulation: the verdict is equivalence to SOME sequential execution of this code; whether the sequential behaviour is the right dictionary is C09/C12 (not applicable to this technique)",
		"preemption between any two statements of util/hmap, util/list, util/queue and inside lock operations, not inside a statement; ThreadSanitizer sees all accesses, with happens-before edges only from the simulated Mutex/Cond/WaitGroup and goroutine creation",
		"configuration calls (SetMax, SetCapacity, SetNullValue) are made only in the sequential prologue",
		"a method that waits for data on an empty queue (Get) is classified by what it waits on (condition vs. its own mutex); only the latter is a violation",
		"operations taking a second instance of the same type (IntKeyMap.PutAll; found by reflection) run in scenario cross as a.M(b) || b.M(a) || a.M(a) || point reads: nobody may wait for a lock forever and each target keeps its own content; the statement does not make a merge atomic with respect to mutations of its source, so races whose entry point is the merge and missing source keys are not judged",
		"whole-structure operations (Sort, KeyArray, ToString, enumerations) are checked for self-deadlock only, and read out sequentially at quiescence; they are not mixed into concurrent histories",
	}
	assumptionsOf["C10"] = assumptions
	realComponents["C10"] = []string{"util/hmap (17 types)", "util/list.LinkedList", "util/queue.RequestQueue", "util/queue.RequestDoubleQueue"}
	stubComponents["C10"] = []string{"sync.Mutex", "sync.Cond", "time (virtual clock)", "goroutine scheduler"}
	probesFor["C10"] = []string{"blocked_on_lock_held_inside_op", "rehash_in_window", "eviction_in_window", "method_cells_run", "method_waits_for_data"}
	racePkgs := []string{"util/hmap", "util/list", "util/queue"}
	ignore := regexp.MustCompile(`\)\.(SetMax|SetCapacity|SetNullValue)$`)
	register(&Scenario{Prop: "C10", Name: "lin", MaxSteps: 300000, Body: c10LinBody, After: c10LinAfter, RacePkgs: racePkgs, RaceIgnore: ignore})
	if xs := c10CrossCells(); len(xs) > 0 {
		var names []string
		for _, x := range xs {
			names = append(names, x.method)
		}
		// the merged-from instance is read by design without its lock being the caller's business:
		// races whose entry point is the merge itself are outside "concurrent mix of point operations"
		xignore := regexp.MustCompile(`\)\.(SetMax|SetCapacity|SetNullValue|` + strings.Join(names, "|") + `)$`)
		register(&Scenario{Prop: "C10", Name: "cross", MaxSteps: 300000, Body: c10CrossBody, After: c10MethodsAfter, RacePkgs: racePkgs, RaceIgnore: xignore, Rare: 10})
	}
	// whole-structure operations next to writers: judged for "blocks forever" only (what such an
	// operation returns while the structure changes under it, and races entered through it, are
	// outside the statement)
	register(&Scenario{Prop: "C10", Name: "whole", MaxSteps: 300000, Body: c10WholeBody, After: c10WholeAfter, RacePkgs: racePkgs, RaceIgnore: regexp.MustCompile(`.`), Rare: 4})
	cells := c10Cells()
	register(&Scenario{Prop: "C10", Name: "methods", MaxSteps: 300000, Body: c10MethodsBody, After: c10MethodsAfter, Cells: len(cells), RacePkgs: racePkgs, RaceIgnore: ignore})
}

type c10Cell struct {
	ti     int
	method string
	state  int // 0 empty, 1 populated, 2 bounded (SetMax) and full
}

var c10CellsCache []c10Cell

func c10Cells() []c10Cell {
	if c10CellsCache != nil {
		return c10CellsCache
	}
	for ti, t := range c10Types {
		obj := t.New(0)
		rt := reflect.TypeOf(obj)
		var names []string
		for i := 0; i < rt.NumMethod(); i++ {
			names = append(names, rt.Method(i).Name)
		}
		sort.Strings(names)
		_, hasMax := rt.MethodByName("SetMax")
		_, hasCap := rt.MethodByName("SetCapacity")
		// queues carry caller-supplied callbacks as fields (refused / evicted element)
		hasCallbacks := false
		if rt.Kind() == reflect.Ptr && rt.Elem().Kind() == reflect.Struct {
			if f, ok := rt.Elem().FieldByName("Overflowed"); ok && f.Type.Kind() == reflect.Func {
				hasCallbacks = true
			}
		}
		for _, n := range names {
			c10CellsCache = append(c10CellsCache, c10Cell{ti, n, 0}, c10Cell{ti, n, 1})
			if hasMax || hasCap {
				c10CellsCache = append(c10CellsCache, c10Cell{ti, n, 2})
			}
			if m, _ := rt.MethodByName(n); (m.Type.NumIn() == 2 && m.Type.In(1).Kind() == reflect.Func) || (hasCallbacks && n != "SetCapacity") {
				c10CellsCache = append(c10CellsCache, c10Cell{ti, n, 3})
			}
		}
	}
	return c10CellsCache
}

// populate fills obj with a few entries using whatever insertion method it has.
func populate(obj interface{}, n int, base int) {
	v := reflect.ValueOf(obj)
	for _, name := range []string{"Put", "Add", "Put1"} {
		if v.MethodByName(name).IsValid() {
			for i := 0; i < n; i++ {
				invoke(obj, name, base+i, 5000+base+i)
			}
			return
		}
	}
}

func c10MethodsBody(rc *RunCtx) {
	cells := c10Cells()
	c := cells[rc.Cell%len(cells)]
	t := c10Types[c.ti]
	d := &c10Data{Type: t.Name, ti: c.ti}
	d.Label = t.Name + "." + c.method
	d.Label += []string{"(empty)", "(populated)", "(bounded,full)", "(populated, caller's callback panics)"}[c.state]
	c10PanickingCmp = c.state == 3
	defer func() { c10PanickingCmp = false }()
	rc.Data = d
	rc.Label = d.Label
	obj := t.New(0)
	if c.state >= 1 {
		if c.state == 2 || c.state == 3 {
			if sm := reflect.ValueOf(obj).MethodByName("SetMax"); sm.IsValid() {
				sm.Call([]reflect.Value{reflect.ValueOf(3)})
			}
			// queues: bounded through SetCapacity, so that the three elements below fill them
			if sc := reflect.ValueOf(obj).MethodByName("SetCapacity"); sc.IsValid() {
				args := []reflect.Value{reflect.ValueOf(3)}
				if sc.Type().NumIn() == 2 {
					args = append(args, reflect.ValueOf(1))
				}
				sc.Call(args)
			}
			if c.state == 3 {
				// ... and their caller-supplied callbacks (refused / evicted element) panic
				for _, fn := range []string{"Overflowed", "Failed"} {
					if f := reflect.ValueOf(obj).Elem().FieldByName(fn); f.IsValid() && f.CanSet() && f.Kind() == reflect.Func {
						name := fn
						f.Set(reflect.ValueOf(func(interface{}) { panic("callback " + name + " fails") }))
					}
				}
			}
		}
		populate(obj, 3, 11) // keys 11..13: the swept call (key 2) is a NEW key, so a bounded full instance must evict
		if t.Name == "RequestDoubleQueue" {
			invoke(obj, "Put2", 9, 9)
		}
	}
	simrt.Probe("method_cells_run")
	rc.NonTrivial = true
	rc.Cells = append(rc.Cells, "method:"+d.Label)
	op := &c10Op{Method: c.method, Key: 2, Val: 7777}
	d.Ops = append(d.Ops, op)
	// operations that by their very name only look at the structure or reorder it must leave
	// its content (membership and values) as it was
	dom := []int{2, 11, 12, 13, 14}
	before := ""
	if c10ReadOnlyName.MatchString(c.method) && c.state >= 1 {
		before = members(obj, dom)
	}
	tk := simrt.GoNamed("caller", func() {
		op.Call = simrt.Stamp()
		op.Out = invoke(obj, c.method, 2, 7777)
		op.Return = simrt.Stamp()
	})
	simrt.Settle(int64(30 * time.Second))
	if before != "" && tk.Done() && !strings.HasPrefix(op.Out, "panic:") {
		if after := members(obj, dom); after != before {
			rc.Violate("C10", "corruption", "content-changed-by:"+d.Label, fmt.Sprintf("%s changed the content although it only reads or reorders: before %s | after %s", d.Label, before, after))
		}
	}
	if !tk.Done() {
		_, what := tk.Blocked()
		d.Waiting = what
		if what == "cond" {
			simrt.Probe("method_waits_for_data")
		} else {
			rc.Violate("C10", "blocks-forever", "blocked:"+d.Label, "method "+d.Label+" did not return: blocked on "+what)
		}
	}
	if strings.HasPrefix(op.Out, "panic:") {
		d.Panicked = op.Out
	}
	if c.state == 3 && tk.Done() {
		// the callback failed in the middle of the operation: the structure must still be whole
		// and usable (a new key can be put, on a full bounded instance too)
		if bad := c10Integrity(obj, []int{2, 11, 12, 13, 14}, 0); bad != "" {
			rc.Violate("C10", "corruption", "corrupt-after-failed-callback:"+d.Label, fmt.Sprintf("%s: after the comparator panicked: %s", d.Label, bad))
		}
		tk2 := simrt.GoNamed("after", func() {
			invoke(obj, "Put", 99, 9999)
			invoke(obj, "Put1", 99, 9999) // the double queue's form
			invoke(obj, "Size", 0, 0)
		})
		simrt.Settle(int64(30 * time.Second))
		if !tk2.Done() {
			_, what := tk2.Blocked()
			rc.Violate("C10", "blocks-forever", "blocked-after-failed-callback:"+d.Label, fmt.Sprintf("%s: after the comparator panicked a Put of a new key did not return: blocked on %s", d.Label, what))
		}
	}
}

func c10MethodsAfter(rc *RunCtx, res *simrt.Result) {
	d := rc.Data.(*c10Data)
	rc.Sample = d
}

// ---- facet A2: operations that take a second instance of the same type ----

type c10CrossCell struct {
	ti     int
	method string
}

// c10CrossCells finds, by reflection, every method whose only parameter is another instance
// of the receiver's own type (merges).
func c10CrossCells() []c10CrossCell {
	var out []c10CrossCell
	for ti, t := range c10Types {
		rt := reflect.TypeOf(t.New(0))
		for i := 0; i < rt.NumMethod(); i++ {
			m := rt.Method(i)
			if m.Type.NumIn() == 2 && m.Type.In(1) == rt {
				out = append(out, c10CrossCell{ti, m.Name})
			}
		}
	}
	return out
}

// c10CrossBody: two instances merged into each other (and into themselves) by concurrent
// tasks, with point operations alongside. Nobody may end up waiting for a lock forever, and
// each target must afterwards hold at least what both held before.
func c10CrossBody(rc *RunCtx) {
	xs := c10CrossCells()
	x := xs[simrt.Choose(len(xs))]
	t := c10Types[x.ti]
	d := &c10Data{Type: t.Name, ti: x.ti, Variant: simrt.Choose(t.Variants)}
	d.Label = t.Name + "." + x.method + "(cross)"
	rc.Data, rc.Label = d, d.Label
	a, b := t.New(d.Variant), t.New(d.Variant)
	na, nb := 1+simrt.Choose(3), 1+simrt.Choose(3)
	populate(a, na, 10)
	populate(b, nb, 20)
	objs := []interface{}{a, b}
	call := func(name string, dst, src int) *simrt.Task {
		op := &c10Op{Method: fmt.Sprintf("%s[%d<-%d]", x.method, dst, src)}
		c10Record(d, op)
		return simrt.GoNamed(name, func() {
			op.Call = simrt.Stamp()
			func() {
				defer func() {
					if r := recover(); r != nil {
						op.Out = "panic:" + strings.SplitN(fmt.Sprint(r), "\n", 2)[0]
					}
				}()
				reflect.ValueOf(objs[dst]).MethodByName(x.method).Call([]reflect.Value{reflect.ValueOf(objs[src])})
			}()
			op.Return = simrt.Stamp()
		})
	}
	var tasks []*simrt.Task
	tasks = append(tasks, call("merge-ab", 0, 1), call("merge-ba", 1, 0))
	if simrt.Chance(1, 3) {
		tasks = append(tasks, call("merge-aa", 0, 0))
	}
	if simrt.Chance(1, 2) {
		tasks = append(tasks, simrt.GoNamed("sizes", func() {
			for i := 0; i < 3; i++ {
				invoke(objs[i%2], "Size", 0, 0)
				invoke(objs[i%2], "Get", 10, 0)
			}
		}))
	}
	rc.NonTrivial = true
	rc.Cells = append(rc.Cells, "cross:"+d.Label)
	simrt.Settle(int64(5 * time.Second))
	stuck := false
	for _, tk := range tasks {
		if !tk.Done() {
			_, what := tk.Blocked()
			d.Waiting = what
			stuck = true
			rc.Violate("C10", "blocks-forever", "blocked:"+d.Label, fmt.Sprintf("%s: a task of {a.%s(b), b.%s(a), a.%s(a), point reads} did not return: blocked on %s", d.Label, x.method, x.method, x.method, what))
			break
		}
	}
	for _, op := range d.Ops {
		if strings.HasPrefix(op.Out, "panic:") {
			d.Panicked = op.Out
			rc.Violate("C10", "corruption", "panic:"+d.Label, d.Label+": "+op.Out)
		}
	}
	if stuck {
		return
	}
	// the statement does not make a merge atomic with respect to mutations of its source (the
	// source is enumerated without its lock), so only the target's own prior content is required
	// (an earlier version of this oracle also demanded the source's keys: a false alarm, removed)
	for i, o := range objs {
		lo, n := 10, na
		if i == 1 {
			lo, n = 20, nb
		}
		for k := lo; k < lo+n; k++ {
			if invoke(o, "ContainsKey", k, 0) != "true" {
				rc.Violate("C10", "corruption", "merge-result:"+d.Label, fmt.Sprintf("%s: after the merges instance %d lacks its own key %d", d.Label, i, k))
			}
		}
	}
}

// ---- facet A3: whole-structure operations concurrent with writers ----

// c10ReadOnlyName: methods that, going by their name, read or reorder (never Put/Add/Remove/
// Clear/Set/ToObject/PutAll/Get on the LRU types, which touches recency but not content either
// - left out to stay on the safe side)
var c10ReadOnlyName = regexp.MustCompile(`^(Sort.*|KeyArray|Keys|Values|Entries|ToString.*|ToFormatString|ToBytes|ToArray|ContainsKey|ContainsValue|Contains|HasKey|GetFirst.*|GetLast.*|IsEmpty|IsFull|Size.*)$`)

var c10ConfigMethods = map[string]bool{"SetMax": true, "SetCapacity": true, "SetNullValue": true}

func c10WholeBody(rc *RunCtx) {
	cells := c10Cells()
	// draw a (type, method) whose method is neither a point operation nor a configuration call
	var c c10Cell
	for tries := 0; ; tries++ {
		c = cells[simrt.Choose(len(cells))]
		if !c10PointOps[c.method] && !c10ConfigMethods[c.method] || tries > 50 {
			break
		}
	}
	t := c10Types[c.ti]
	d := &c10Data{Type: t.Name, ti: c.ti}
	d.Label = t.Name + "." + c.method + "(next to writers)"
	rc.Data, rc.Label = d, d.Label
	obj := t.New(0)
	populate(obj, 3, 11)
	rt := reflect.TypeOf(obj)
	// Is the operation content-neutral when run alone (Sort, KeyArray, ToString, enumerations
	// are; ToObject, PutAll are not)? If so, it must be content-neutral next to writers too:
	// what the point operations around it see, and what the structure holds afterwards, must be
	// explained by the point operations alone ("never corrupts the structure").
	dom := []int{11, 12, 13, 14}
	if members(obj, dom) != "" {
		probe := t.New(0)
		populate(probe, 3, 11)
		before := members(probe, dom)
		out := invoke(probe, c.method, 2, 7700)
		d.Neutral = !strings.HasPrefix(out, "panic:") && members(probe, dom) == before
	}
	var points []string
	for i := 0; i < rt.NumMethod(); i++ {
		n := rt.Method(i).Name
		if d.Neutral && (strings.Contains(n, "First") || strings.Contains(n, "Last") || strings.Contains(n, "LRU")) {
			continue // order-dependent operations: a neutral operation may legitimately reorder (Sort)
		}
		if c10PointOps[n] && n != "Get" || n == "Get" && !strings.HasPrefix(t.Name, "Request") {
			if _, ok := mkArgs(n, reflect.ValueOf(obj).MethodByName(n).Type(), 1, 1); ok {
				points = append(points, n)
			}
		}
	}
	sort.Strings(points)
	rc.NonTrivial = true
	rc.Cells = append(rc.Cells, "whole:"+d.Label)
	var tasks []*simrt.Task
	nWhole := 1 + simrt.Choose(2)
	for w := 0; w < nWhole; w++ {
		reps := 1 + simrt.Choose(2)
		tasks = append(tasks, simrt.GoNamed("whole"+strconv.Itoa(w+1), func() {
			for i := 0; i < reps; i++ {
				op := &c10Op{Method: c.method, Key: 2, Val: 7700 + i}
				c10Record(d, op)
				op.Call = simrt.Stamp()
				op.Out = invoke(obj, c.method, 2, 7700+i)
				op.Return = simrt.Stamp()
			}
		}))
	}
	nWriters := 1 + simrt.Choose(2)
	for w := 0; w < nWriters; w++ {
		n := 2 + simrt.Choose(3)
		var ms []string
		var ks []int
		for i := 0; i < n; i++ {
			ms, ks = append(ms, points[simrt.Choose(len(points))]), append(ks, 11+simrt.Choose(4))
		}
		base := 8000 + 100*w
		wid := w + 1
		tasks = append(tasks, simrt.GoNamed("writer"+strconv.Itoa(w+1), func() {
			for i := range ms {
				op := &c10Op{Task: wid, Method: ms[i], Key: ks[i], Val: base + i, Phase: "writer"}
				c10Record(d, op)
				op.Call = simrt.Stamp()
				op.Out = invoke(obj, ms[i], ks[i], base+i)
				op.Return = simrt.Stamp()
			}
		}))
	}
	simrt.Settle(int64(5 * time.Second))
	if d.Neutral {
		op := &c10Op{Task: 0, Method: "MEMBERS", Phase: "writer"}
		c10Record(d, op)
		op.Call = simrt.Stamp()
		op.Out = members(obj, dom)
		op.Return = simrt.Stamp()
	}
	for _, tk := range tasks {
		if !tk.Done() {
			_, what := tk.Blocked()
			d.Waiting = what
			if what != "cond" {
				rc.Violate("C10", "blocks-forever", "blocked:"+d.Label, fmt.Sprintf("%s: task %s did not return: blocked on %s", d.Label, tk.Name, what))
				break
			}
		}
	}
}

// members renders what a dictionary or set holds for the given keys, order left aside ("" if
// the type is neither).
func members(obj interface{}, keys []int) string {
	v := reflect.ValueOf(obj)
	has := func(n string) bool { return v.MethodByName(n).IsValid() }
	if !has("ContainsKey") && !has("Contains") {
		return ""
	}
	var sb strings.Builder
	sb.WriteString("size=" + invoke(obj, "Size", 0, 0))
	for _, k := range keys {
		if has("ContainsKey") {
			sb.WriteString(fmt.Sprintf(" %d:%s/%s", k, invoke(obj, "ContainsKey", k, 0), invoke(obj, "Get", k, 0)))
		} else {
			sb.WriteString(fmt.Sprintf(" %d:%s", k, invoke(obj, "Contains", k, 0)))
		}
	}
	return sb.String()
}

func c10WholeAfter(rc *RunCtx, res *simrt.Result) {
	d := rc.Data.(*c10Data)
	rc.Sample = d
	if !d.Neutral || len(rc.Viols) > 0 {
		return
	}
	var ops []porcupine.Operation
	for i, op := range d.Ops {
		if op.Phase != "writer" || op.Return == 0 {
			continue
		}
		ops = append(ops, porcupine.Operation{ClientId: op.Task, Input: i, Call: op.Call, Output: op.Out, Return: op.Return})
	}
	dom := []int{11, 12, 13, 14}
	model := porcupine.Model{
		Init: func() interface{} { return "" },
		Step: func(state, input, output interface{}) (bool, interface{}) {
			st := state.(string)
			idx := input.(int)
			obj := c10Types[d.ti].New(0)
			populate(obj, 3, 11)
			if st != "" {
				for _, s := range strings.Split(st, ",") {
					j, _ := strconv.Atoi(s)
					invoke(obj, d.Ops[j].Method, d.Ops[j].Key, d.Ops[j].Val)
				}
			}
			o := d.Ops[idx]
			var got string
			if o.Method == "MEMBERS" {
				got = members(obj, dom)
			} else {
				got = invoke(obj, o.Method, o.Key, o.Val)
			}
			ns := st
			if ns != "" {
				ns += ","
			}
			return got == output.(string), ns + strconv.Itoa(idx)
		},
	}
	r := checkLinearizable(model, ops, 20*time.Second)
	if r == porcupine.Illegal {
		var sb strings.Builder
		for _, op := range d.Ops {
			fmt.Fprintf(&sb, " [%s t%d %s(%d,%d)->%s @%d..%d]", op.Phase, op.Task, op.Method, op.Key, op.Val, op.Out, op.Call, op.Return)
		}
		rc.Violate("C10", "corruption", "content-changed-by:"+d.Label,
			fmt.Sprintf("%s is content-neutral when run alone, but next to it the point operations and the final content are not explained by any order of the point operations alone:%s", d.Label, sb.String()))
	} else if r == porcupine.Unknown {
		rc.Inconclusive++
	}
}

// ---- facet B: linearizability ----

type c10Plan struct {
	method []string
	key    []int
	val    []int
}

func c10Setup(d *c10Data) (interface{}, []int) {
	t := c10Types[d.ti]
	longKeys = d.LongKeys
	obj := t.New(d.Variant)
	keys := []int{1, 2, 3, 4}
	if d.Collide {
		// pairs that share a bucket of the default table (101 slots) next to keys that do not
		keys = []int{1, 2, 102, 103}
	}
	if d.Negative {
		// keys are signed: negative ones next to positive ones (hashes of real keys are)
		keys = []int{-1, 2, -102, 103}
	}
	if d.Prefill > 0 {
		populate(obj, d.Prefill, 1000)
	}
	if d.Max > 0 {
		if m := reflect.ValueOf(obj).MethodByName("SetMax"); m.IsValid() {
			m.Call([]reflect.Value{reflect.ValueOf(d.Max)})
		}
	}
	return obj, keys
}

func c10LinBody(rc *RunCtx) {
	d := &c10Data{}
	rc.Data = d
	d.ti = simrt.Choose(len(c10Types))
	t := c10Types[d.ti]
	d.Type = t.Name
	d.Variant = simrt.Choose(t.Variants)
	d.LongKeys = simrt.Chance(1, 2)
	d.Collide = simrt.Chance(1, 3)
	d.Negative = !d.Collide && simrt.Chance(1, 3)
	rt := reflect.TypeOf(t.New(0))
	_, hasMax := rt.MethodByName("SetMax")
	switch simrt.Choose(4) {
	case 1:
		if hasMax {
			d.Max = 2 + simrt.Choose(2)
		}
	case 2:
		if !t.HasCap && strings.Contains(t.Name, "Map") || strings.Contains(t.Name, "Set") {
			// default capacity 101, threshold 75: prefill so that growth happens inside the window
			d.Prefill = 73 + simrt.Choose(3)
		}
	}
	obj, keys := c10Setup(d)
	var points []string
	for i := 0; i < rt.NumMethod(); i++ {
		n := rt.Method(i).Name
		if c10PointOps[n] {
			if n == "Get" && strings.HasPrefix(t.Name, "Request") && !simrt.Chance(1, 2) {
				continue // blocking dequeue only in half of the runs (a task parked in it ends its plan)
			}
			if _, ok := mkArgs(n, reflect.ValueOf(obj).MethodByName(n).Type(), 1, 1); ok {
				points = append(points, n)
			}
		}
	}
	sort.Strings(points)
	nKeys := 2 + simrt.Choose(3)
	nTasks := 2 + simrt.Choose(3)
	val := 100
	plans := make([]c10Plan, nTasks)
	total := 0
	for ti := 0; ti < nTasks; ti++ {
		n := 2 + simrt.Choose(4)
		if total+n > 14 {
			n = 14 - total
		}
		for i := 0; i < n; i++ {
			m := points[simrt.Choose(len(points))]
			if m == "Clear" && simrt.Chance(2, 3) { // keep Clear rare
				m = points[simrt.Choose(len(points))]
			}
			val++
			plans[ti].method = append(plans[ti].method, m)
			plans[ti].key = append(plans[ti].key, keys[simrt.Choose(nKeys)])
			plans[ti].val = append(plans[ti].val, val)
		}
		total += n
	}
	simrt.SetStepsGuess(int64(total) * 40)
	thresholdBefore := invoke(obj, "Size", 0, 0)
	var tasks []*simrt.Task
	for ti := 0; ti < nTasks; ti++ {
		pl := plans[ti]
		idx := ti
		tk := simrt.GoNamed("t"+strconv.Itoa(ti+1), func() {
			for i := range pl.method {
				op := &c10Op{Task: idx + 1, Method: pl.method[i], Key: pl.key[i], Val: pl.val[i]}
				c10Record(d, op)
				simrt.SetOp(len(d.Ops))
				op.Call = simrt.Stamp()
				op.Out = invoke(obj, pl.method[i], pl.key[i], pl.val[i])
				op.Return = simrt.Stamp()
				simrt.SetOp(0)
			}
		})
		tasks = append(tasks, tk)
	}
	// a neighbour: a second instance of the same type used by one task of its own while the
	// first is busy; used alone it must behave exactly as it does sequentially (no state
	// shared between instances)
	if simrt.ChanceF(1, 4) {
		nb := t.New(d.Variant)
		nn := 3 + simrt.ChooseF(6)
		var nm []string
		var nk, nv []int
		for i := 0; i < nn; i++ {
			m := points[simrt.ChooseF(len(points))]
			if m == "Get" && strings.HasPrefix(t.Name, "Request") {
				m = "GetNoWait" // a lone task must not park
			}
			nm, nk, nv = append(nm, m), append(nk, keys[simrt.ChooseF(nKeys)]), append(nv, 7000+i)
		}
		simrt.GoNamed("neighbour", func() {
			var outs []string
			for i := range nm {
				outs = append(outs, invoke(nb, nm[i], nk[i], nv[i]))
			}
			outs = append(outs, readout(nb, keys))
			c10Neighbour(d, nm, nk, nv, outs)
		})
	}
	// tasks may stay parked in a blocking dequeue: wait for quiescence, not for their end
	simrt.Settle(int64(5 * time.Second))
	for _, tk := range tasks {
		if !tk.Done() {
			if _, what := tk.Blocked(); what != "cond" {
				rc.Violate("C10", "blocks-forever", "blocked:"+d.Type, "a task of the concurrent mix did not finish: blocked on "+what)
			}
		}
	}
	_ = thresholdBefore
	// sequential read-out at quiescence: structural corruption shows as an illegal history
	op := &c10Op{Task: 0, Method: "READOUT", Phase: "readout"}
	c10Record(d, op)
	op.Call = simrt.Stamp()
	op.Out = readout(obj, keys)
	op.Return = simrt.Stamp()
	dom := append([]int(nil), keys...)
	for i := 0; i < d.Prefill; i++ {
		dom = append(dom, 1000+i)
	}
	if bad := c10Integrity(obj, dom, d.Max); bad != "" {
		rc.Violate("C10", "corruption", "corrupt:"+d.Type, fmt.Sprintf("%s (variant %d, max %d, prefill %d) after a concurrent mix of point operations: %s", d.Type, d.Variant, d.Max, d.Prefill, bad))
	}
	if d.Prefill > 0 {
		simrt.Probe("rehash_in_window")
	}
	if d.Max > 0 {
		simrt.Probe("eviction_in_window")
	}
	if t.HasCap && d.Variant > 0 {
		simrt.Probe("rehash_in_window")
	}
}

//go:norace
func c10Neighbour(d *c10Data, m []string, k, v []int, outs []string) {
	d.nbM, d.nbK, d.nbV, d.nbOut = m, k, v, outs
}

//go:norace
func c10Record(d *c10Data, op *c10Op) { d.Ops = append(d.Ops, op) }

func c10LinAfter(rc *RunCtx, res *simrt.Result) {
	d := rc.Data.(*c10Data)
	rc.Sample = d
	var h uint64 = 1469598103934665603
	for _, op := range d.Ops {
		for _, c := range []byte(op.Method + "|" + op.Out) {
			h = (h ^ uint64(c)) * 1099511628211
		}
		h = (h ^ uint64(op.Call)) * 1099511628211
		h = (h ^ uint64(op.Return)) * 1099511628211
	}
	rc.OutcomeHash = h
	if d.nbOut != nil {
		longKeys = d.LongKeys
		ref := c10Types[d.ti].New(d.Variant)
		for i := range d.nbM {
			if got := invoke(ref, d.nbM[i], d.nbK[i], d.nbV[i]); got != d.nbOut[i] {
				rc.Violate("C10", "instance-leak", "instance-leak:"+d.Type, fmt.Sprintf("a second %s used by a single task while the first was busy: op %d %s(%d,%d) returned %s, sequentially it returns %s", d.Type, i, d.nbM[i], d.nbK[i], d.nbV[i], d.nbOut[i], got))
				break
			}
		}
		_, nbKeys := c10Setup(d)
		if got := readout(ref, nbKeys); len(d.nbOut) == len(d.nbM)+1 && got != d.nbOut[len(d.nbM)] {
			rc.Violate("C10", "instance-leak", "instance-leak:"+d.Type, fmt.Sprintf("a second %s used by a single task while the first was busy ends as %q, sequentially as %q", d.Type, d.nbOut[len(d.nbM)], got))
		}
	}
	var ops []porcupine.Operation
	for i, op := range d.Ops {
		if op.Return == 0 {
			continue
		}
		ops = append(ops, porcupine.Operation{ClientId: op.Task, Input: i, Call: op.Call, Output: op.Out, Return: op.Return})
	}
	model := porcupine.Model{
		Init: func() interface{} { return "" },
		Step: func(state, input, output interface{}) (bool, interface{}) {
			st := state.(string)
			idx := input.(int)
			// rebuild a fresh instance and replay the operations linearised so far
			obj, keys := c10Setup(d)
			if st != "" {
				for _, s := range strings.Split(st, ",") {
					j, _ := strconv.Atoi(s)
					o := d.Ops[j]
					invoke(obj, o.Method, o.Key, o.Val)
				}
			}
			o := d.Ops[idx]
			var got string
			if o.Method == "READOUT" {
				got = readout(obj, keys)
			} else {
				got = invoke(obj, o.Method, o.Key, o.Val)
			}
			ns := st
			if ns != "" {
				ns += ","
			}
			ns += strconv.Itoa(idx)
			return got == output.(string), ns
		},
	}
	r := checkLinearizable(model, ops, 20*time.Second)
	if r == porcupine.Illegal {
		var sb strings.Builder
		for _, op := range d.Ops {
			fmt.Fprintf(&sb, " [t%d %s(%d,%d)->%s @%d..%d]", op.Task, op.Method, op.Key, op.Val, op.Out, op.Call, op.Return)
		}
		rc.Violate("C10", "linearizability", "nonlinearizable:"+d.Type,
			fmt.Sprintf("concurrent history of %s (variant %d, max %d, prefill %d) is not equivalent to any sequential execution of the same type:%s", d.Type, d.Variant, d.Max, d.Prefill, sb.String()))
	} else if r == porcupine.Unknown {
		rc.Inconclusive++
	}
}
