package main

import (
	"encoding/binary"
	"fmt"
	"math"
	"strings"

	wio "github.com/whatap/golib/io"
	"github.com/whatap/golib/zzverif/simnet"
	"github.com/whatap/golib/zzverif/simrt"
)

// ---- C04, scenario prim: the primitive reads of DataInputX against a reference reader ----
//
// The sweeps of scenario decode judge whole decoders by what they consume and by the
// buffer/connection differential. A primitive read that hands out bytes from somewhere else
// (a scratch array kept across reads, a view of the input shorter than asked for) can pass
// both: the stale bytes are bytes of the same input and both modes share the fault. Here a
// seeded sequence of primitive reads runs over a seeded, mostly hostile byte string, on one
// reader (so that what an earlier read left behind matters), from a buffer and through a
// simulated connection, next to a reference reader written from the format: big-endian
// two's complement integers, IEEE bit patterns, one-byte-length decimals (0..5 bytes, any
// other length byte: eight bytes), blobs with 1/3/5-byte length forms, 16- and 32-bit length
// prefixes. Every read that returns must return exactly the reference's value, and must fail when the
// reference runs out of input (or meets a negative length). A read that fails although the
// value is there fails closed and is not judged.

type primOp struct {
	Name string `json:"op"`
	Arg  int    `json:"arg,omitempty"`
}

type primData struct {
	Hex   string   `json:"input_hex"`
	Len   int      `json:"input_len"`
	Ops   []primOp `json:"ops"`
	Trace []string `json:"trace,omitempty"`
}

type refReader struct {
	b      []byte
	pos    int
	maxAsk int64 // largest length or count the input announced so far
}

type refFail struct{}

func (r *refReader) take(n int) []byte {
	if int64(n) > r.maxAsk {
		r.maxAsk = int64(n)
	}
	if n < 0 || r.pos+n > len(r.b) {
		panic(refFail{})
	}
	v := r.b[r.pos : r.pos+n]
	r.pos += n
	return v
}

func (r *refReader) sint(n int) int64 { // n-byte big-endian two's complement
	v := r.take(n)
	var x int64
	if v[0]&0x80 != 0 {
		x = -1
	}
	for _, c := range v {
		x = x<<8 | int64(c)
	}
	return x
}

func (r *refReader) blob() []byte {
	switch l := int(r.take(1)[0]); l {
	case 255:
		return r.take(int(binary.BigEndian.Uint16(r.take(2))))
	case 254:
		return r.take(int(int32(binary.BigEndian.Uint32(r.take(4)))))
	default:
		return r.take(l)
	}
}

var primOps = []string{"Byte", "Bool", "Short", "UShort", "UnsignedShort", "ShortLittle", "Int3", "Int", "UnsignedInt", "IntLittle", "UintLittle",
	"Long5", "Long", "Decimal", "DecimalLen", "Float", "Double", "Blob", "Text", "TextShortLength", "ShortBytes", "IntBytes", "IntBytesLimit",
	"Bytes", "ShortArray", "IntArray", "LongArray", "TextArray", "DecimalArray", "DecimalArrayInt"}

// primRef performs op on the reference reader and renders the result.
func primRef(r *refReader, op primOp) string {
	switch op.Name {
	case "Byte":
		return fmt.Sprint(r.take(1)[0])
	case "Bool":
		r.take(1) // which non-zero bytes count as true is not this check's business
		return "bool"
	case "Short":
		return fmt.Sprint(r.sint(2))
	case "UShort", "UnsignedShort":
		return fmt.Sprint(binary.BigEndian.Uint16(r.take(2)))
	case "ShortLittle":
		return fmt.Sprint(int16(binary.LittleEndian.Uint16(r.take(2))))
	case "Int3":
		return fmt.Sprint(r.sint(3))
	case "Int":
		return fmt.Sprint(r.sint(4))
	case "UnsignedInt":
		return fmt.Sprint(binary.BigEndian.Uint32(r.take(4)))
	case "IntLittle":
		return fmt.Sprint(int32(binary.LittleEndian.Uint32(r.take(4))))
	case "UintLittle":
		return fmt.Sprint(binary.LittleEndian.Uint32(r.take(4)))
	case "Long5":
		return fmt.Sprint(r.sint(5))
	case "Long":
		return fmt.Sprint(r.sint(8))
	case "Decimal", "DecimalLen":
		l := op.Arg
		if op.Name == "Decimal" {
			l = int(r.take(1)[0])
		}
		switch {
		case l == 0:
			return "0"
		case l >= 1 && l <= 5:
			return fmt.Sprint(r.sint(l))
		}
		return fmt.Sprint(r.sint(8))
	case "Float":
		return fmt.Sprint(math.Float32bits(math.Float32frombits(binary.BigEndian.Uint32(r.take(4)))))
	case "Double":
		return fmt.Sprint(math.Float64bits(math.Float64frombits(binary.BigEndian.Uint64(r.take(8)))))
	case "Blob", "Text":
		return fmt.Sprintf("%x", r.blob())
	case "TextShortLength", "ShortBytes":
		return fmt.Sprintf("%x", r.take(int(binary.BigEndian.Uint16(r.take(2)))))
	case "IntBytes":
		return fmt.Sprintf("%x", r.take(int(int32(binary.BigEndian.Uint32(r.take(4))))))
	case "IntBytesLimit":
		n := int(int32(binary.BigEndian.Uint32(r.take(4))))
		if n > op.Arg {
			panic(refFail{})
		}
		return fmt.Sprintf("%x", r.take(n))
	case "Bytes":
		return fmt.Sprintf("%x", r.take(op.Arg))
	case "ShortArray", "IntArray", "LongArray", "TextArray":
		n := int(r.sint(2))
		if n < 0 {
			panic(refFail{})
		}
		var out []string
		for i := 0; i < n && i < len(r.b)+1; i++ {
			switch op.Name {
			case "ShortArray":
				out = append(out, fmt.Sprint(r.sint(2)))
			case "IntArray":
				out = append(out, fmt.Sprint(r.sint(4)))
			case "LongArray":
				out = append(out, fmt.Sprint(r.sint(8)))
			default:
				out = append(out, fmt.Sprintf("%x", r.blob()))
			}
		}
		return strings.Join(out, ",")
	case "DecimalArray", "DecimalArrayInt":
		n := int64(0)
		if l := int(r.take(1)[0]); l >= 1 && l <= 5 {
			n = r.sint(l)
		} else if l != 0 {
			n = r.sint(8)
		}
		if n < 0 {
			panic(refFail{})
		}
		if n > r.maxAsk {
			r.maxAsk = n
		}
		var out []string
		for i := int64(0); i < n; i++ {
			l := int(r.take(1)[0])
			v := int64(0)
			if l >= 1 && l <= 5 {
				v = r.sint(l)
			} else if l != 0 {
				v = r.sint(8)
			}
			if op.Name == "DecimalArrayInt" {
				v = int64(int32(v))
			}
			out = append(out, fmt.Sprint(v))
		}
		return strings.Join(out, ",")
	}
	panic("unknown primitive " + op.Name)
}

// primReal performs op on golib's reader and renders the result the same way.
func primReal(in *wio.DataInputX, op primOp) string {
	switch op.Name {
	case "Byte":
		return fmt.Sprint(in.ReadByte())
	case "Bool":
		in.ReadBool()
		return "bool"
	case "Short":
		return fmt.Sprint(in.ReadShort())
	case "UShort":
		return fmt.Sprint(in.ReadUShort())
	case "UnsignedShort":
		return fmt.Sprint(in.ReadUnsignedShort())
	case "ShortLittle":
		return fmt.Sprint(in.ReadShortLittle())
	case "Int3":
		return fmt.Sprint(in.ReadInt3())
	case "Int":
		return fmt.Sprint(in.ReadInt())
	case "UnsignedInt":
		return fmt.Sprint(in.ReadUnsignedInt())
	case "IntLittle":
		return fmt.Sprint(in.ReadIntLittle())
	case "UintLittle":
		return fmt.Sprint(in.ReadUintLittle())
	case "Long5":
		return fmt.Sprint(in.ReadLong5())
	case "Long":
		return fmt.Sprint(in.ReadLong())
	case "Decimal":
		return fmt.Sprint(in.ReadDecimal())
	case "DecimalLen":
		return fmt.Sprint(in.ReadDecimalLen(op.Arg))
	case "Float":
		return fmt.Sprint(math.Float32bits(in.ReadFloat()))
	case "Double":
		return fmt.Sprint(math.Float64bits(in.ReadDouble()))
	case "Blob":
		return fmt.Sprintf("%x", in.ReadBlob())
	case "Text":
		return fmt.Sprintf("%x", in.ReadText())
	case "TextShortLength":
		return fmt.Sprintf("%x", in.ReadTextShortLength())
	case "ShortBytes":
		return fmt.Sprintf("%x", in.ReadShortBytes())
	case "IntBytes":
		return fmt.Sprintf("%x", in.ReadIntBytes())
	case "IntBytesLimit":
		return fmt.Sprintf("%x", in.ReadIntBytesLimit(op.Arg))
	case "Bytes":
		return fmt.Sprintf("%x", in.ReadBytes(int32(op.Arg)))
	case "ShortArray":
		var out []string
		for _, v := range in.ReadShortArray() {
			out = append(out, fmt.Sprint(v))
		}
		return strings.Join(out, ",")
	case "IntArray":
		var out []string
		for _, v := range in.ReadIntArray() {
			out = append(out, fmt.Sprint(v))
		}
		return strings.Join(out, ",")
	case "LongArray":
		var out []string
		for _, v := range in.ReadLongArray() {
			out = append(out, fmt.Sprint(v))
		}
		return strings.Join(out, ",")
	case "TextArray":
		var out []string
		for _, v := range in.ReadTextArray() {
			out = append(out, fmt.Sprintf("%x", v))
		}
		return strings.Join(out, ",")
	case "DecimalArray":
		var out []string
		for _, v := range in.ReadDecimalArray() {
			out = append(out, fmt.Sprint(v))
		}
		return strings.Join(out, ",")
	case "DecimalArrayInt":
		var out []string
		for _, v := range in.ReadDecimalArrayInt() {
			out = append(out, fmt.Sprint(v))
		}
		return strings.Join(out, ",")
	}
	panic("unknown primitive " + op.Name)
}

func init() {
	register(&Scenario{Prop: "C04", Name: "prim", MaxSteps: 50000000, Body: c04PrimBody, After: func(rc *RunCtx, res *simrt.Result) {}, StepcapIsViolation: true, Rare: 5})
}

// primInput draws a byte string in which length-like values are frequent.
func primInput() []byte {
	n := simrt.Choose(48)
	if simrt.Chance(1, 6) {
		n = 0
	}
	b := make([]byte, 0, n)
	small := []byte{0, 1, 2, 3, 4, 5, 6, 7, 8, 9, 0x7f, 0x80, 0xfd, 0xfe, 0xff, 0x10}
	for len(b) < n {
		if simrt.Chance(2, 3) {
			b = append(b, small[simrt.Choose(len(small))])
		} else {
			b = append(b, byte(simrt.Choose(256)))
		}
	}
	if simrt.Chance(1, 8) {
		// a long field: a length prefix that announces k bytes, followed by k, fewer or more
		k := []int{200, 4095, 4096, 5000, 65535, 65536, 70000}[simrt.Choose(7)]
		have := k
		switch simrt.Choose(4) {
		case 0:
			have = k - 1 - simrt.Choose(3)
		case 1:
			have = k / 2
		case 2:
			have = k + simrt.Choose(9)
		}
		switch simrt.Choose(3) {
		case 0:
			b = append(b, 254, byte(k>>24), byte(k>>16), byte(k>>8), byte(k))
		case 1:
			b = append(b, byte(k>>24), byte(k>>16), byte(k>>8), byte(k))
		default:
			b = append(b, 255, byte(k>>8), byte(k))
		}
		for i := 0; i < have; i++ {
			b = append(b, byte('a'+i%23))
		}
	}
	return b
}

func c04PrimBody(rc *RunCtx) {
	rc.NonTrivial = true
	rc.Label = "prim"
	for k := 0; k < 16; k++ {
		d := &primData{}
		rc.Data = d
		if c04PrimCase(rc, d) {
			return
		}
	}
}

// c04PrimCase runs one input and one sequence of reads; true = a violation was reported.
func c04PrimCase(rc *RunCtx, d *primData) (violated bool) {
	input := primInput()
	d.Len = len(input)
	if len(input) <= 96 {
		d.Hex = fmt.Sprintf("%x", input)
	} else {
		d.Hex = fmt.Sprintf("%x...(%d bytes)", input[:64], len(input))
	}
	nOps := 1 + simrt.Choose(8)
	for i := 0; i < nOps; i++ {
		op := primOp{Name: primOps[simrt.Choose(len(primOps))]}
		switch op.Name {
		case "DecimalLen":
			op.Arg = simrt.Choose(10)
		case "IntBytesLimit":
			op.Arg = []int{0, 8, 100, 100000}[simrt.Choose(4)]
		case "Bytes":
			op.Arg = []int{0, 1, 3, 8, 9, 17, 4096, 70000}[simrt.Choose(8)]
		}
		d.Ops = append(d.Ops, op)
	}
	// reference
	ref := &refReader{b: input}
	var want []string
	refFailedAt := -1
	for i, op := range d.Ops {
		ok := func() (ok bool) {
			defer func() {
				if r := recover(); r != nil {
					if _, is := r.(refFail); !is {
						panic(r)
					}
				}
			}()
			want = append(want, primRef(ref, op))
			return true
		}()
		if !ok {
			refFailedAt = i
			break
		}
	}
	run := func(mode string, in *wio.DataInputX) {
		simrt.SetStepBudget(3000000 + 4000*int64(len(input)))
		for i, op := range d.Ops {
			if mode == "connection" && i == refFailedAt && ref.maxAsk > 1<<20 {
				// a connection cannot know how much will come: a plain read of an announced size
				// allocates before reading by design (not charged, see scenario decode)
				return
			}
			var got string
			failed := func() (failed bool) {
				defer func() {
					if r := recover(); r != nil {
						failed = true
					}
				}()
				got = primReal(in, op)
				return false
			}()
			at := fmt.Sprintf("%s mode, read #%d Read%s(%d) over %s", mode, i+1, op.Name, op.Arg, d.Hex)
			switch {
			case i == refFailedAt && !failed:
				rc.Violate("C04", "fabricated-data", "fabricated-data:prim", fmt.Sprintf("%s returned %q although the input cannot hold that value at this position (%d bytes were left)", at, truncate(got, 80), len(input)-ref.pos))
				violated = true
				return
			case i == refFailedAt:
				simrt.Probe("prim_read_failed_as_it_must")
				return
			case failed:
				// failing on input that holds the value is failing closed: not C04's business (a
				// connection that reports EOF together with its last bytes is refused this way)
				simrt.Probe("prim_refused_although_present")
				return
			case got != want[i]:
				rc.Violate("C04", "fabricated-data", "fabricated-data:prim", fmt.Sprintf("%s returned %q, the bytes at this position say %q", at, truncate(got, 80), truncate(want[i], 80)))
				violated = true
				return
			}
			simrt.Probe("prim_read_equal")
		}
	}
	run("buffer", wio.NewDataInputX(append([]byte(nil), input...)))
	if violated {
		return
	}
	conn, srv := simnet.NewPipe()
	srv.Feed(input, []int{1, 2, 3}[simrt.Choose(3)])
	run("connection", wio.NewDataInputNet(conn))
	return
}
