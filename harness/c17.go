package main

import (
	"fmt"
	"path/filepath"
	"regexp"
	"sort"
	"strconv"
	"strings"
	"syscall"
	"time"

	"github.com/whatap/golib/logger/logfile"
	"github.com/whatap/golib/util/dateutil"
	"github.com/whatap/golib/zzverif/simos"
	"github.com/whatap/golib/zzverif/simrt"
)

// ---- C17: file logger keeps lines in order, rotates by date, prunes only its own files ----

func init() {
	setTier("C17", 200000, 300, 6000000, 1800)
	levelOf["C17"] = "exploration"
	ruleOf["C17"] = "one run = one seeded scenario (log id/object name, level, interval, keep-days, rotation; a logs directory pre-populated with own files of various ages, look-alike foreign files and a sub-directory; 1-4 logging tasks issuing calls of all methods with unique tokens and shared or unique message ids; clock steps of seconds to many days incl. across midnight; Read calls with existing, missing, growing and directory-escaping names) under one seeded schedule on a virtual clock; oracles over the simulated disk's final content (plus: reload of level/interval/keep-days at runtime, a twin logger with the same object name, open and write failures on the log file, impossible dates, glob characters in home path and log id); non-trivial = a context switch inside a log/Read call or a clock step fired; distinct = distinct fingerprint of (switch sequence, clock steps, per-call outcome, surviving file set)"
	assumptionsOf["C17"] = []string{
		"the logger is obtained through NewFileLogger; level/interval/keep-days/rotation are applied through the public ApplyConfig in the sequential prologue (or left at their defaults)",
		"a line may land in the previous day's file if the date changed less than 21 virtual seconds (two 10 s cycles plus slack) before the call; later lines must be in the new day's file",
		"retention is judged after a final quiet period of 75 virtual seconds; files whose age crosses the keep-days threshold within that period are not judged; only names with the own prefix and a .log extension, and clearly foreign names, are generated (own prefix with other extensions is a gray zone)",
		"suppression of a repeated id is legitimate iff a line with the same id was emitted less than the interval (plus 50 ms slack) earlier; the converse (must suppress) is only judged in single-task runs without clock steps",
		"Read lengths are positive (a negative length panics inside make, outside the statement); log files are append-only, so a returned window is compared with the final content",
		"open-failure fault (one run in five, after the first open, at most twice): an open for append of a log file fails with EMFILE/ENOSPC/EACCES; in runs where one fired a line may stay in the file the logger already had (any own dated file up to the call's date) but must still not be lost",
		"os, io/ioutil and log are the simulator's in-memory models; one O_APPEND write is atomic as for regular files",
	}
	realComponents["C17"] = []string{"logger/logfile.FileLogger (NewFileLogger, all log methods, run/process/openFile/clearOldLog, Read, ApplyConfig)", "util/hmap.StringLongLinkedMap (rate limiter)", "util/dateutil", "util/stringutil, util/ansi"}
	stubComponents["C17"] = []string{"os / io/ioutil (simdisk)", "log.Logger (simlog: same formatting, simulated mutex, virtual clock stamps)", "config.Config stub", "sync, time (virtual clock), goroutine scheduler"}
	probesFor["C17"] = []string{"clock_step", "crossed_midnight", "rotation_new_file", "retention_removed_file", "retention_kept_foreign", "line_suppressed", "read_outside_attempt", "read_growing_file", "rotation_disabled"}
	register(&Scenario{Prop: "C17", Name: "logger", MaxSteps: 1500000, Body: c17Body, After: c17After, Quanta: []int64{2000, 20000, 100000}})
}

type c17Call struct {
	N      int    `json:"n"`
	Task   int    `json:"task"`
	Method string `json:"m"`
	ID     string `json:"id"`
	Token  string `json:"token"`
	CallMs int64  `json:"call_ms"`
	RetMs  int64  `json:"ret_ms"`
	CallNs int64  `json:"call_ns"` // virtual elapsed
	RetNs  int64  `json:"ret_ns"`
	Call   int64  `json:"call"`
	Return int64  `json:"return"`
	// filled by After
	Found int    `json:"found"`
	File  string `json:"file,omitempty"`
	Off   int    `json:"off,omitempty"`
}

type c17Read struct {
	Name   string `json:"name"`
	End    int64  `json:"end"`
	Len    int64  `json:"len"`
	Nil    bool   `json:"nil"`
	Before int64  `json:"before"`
	Next   int64  `json:"next"`
	Text   string `json:"text"`
	Panic  string `json:"panic,omitempty"`
	snap   string
	snapOK bool
}

type c17Data struct {
	LogID       string            `json:"log_id"`
	Oname       string            `json:"oname"`
	Level       int               `json:"level"`
	Interval    int               `json:"interval_s"`
	KeepDays    int               `json:"keep_days"`
	Rotation    bool              `json:"rotation"`
	Tasks       int               `json:"tasks"`
	Calls       []*c17Call        `json:"calls"`
	Reads       []*c17Read        `json:"reads"`
	Steps       []string          `json:"clock_steps"`
	Reconf      *c17Reconf        `json:"reconfigured,omitempty"`
	Home        string            `json:"home"`
	Second      int               `json:"second_logger_lines,omitempty"`
	SecondFirst bool              `json:"second_logger_constructed_concurrently,omitempty"`
	Twin        bool              `json:"second_logger_same_object_name,omitempty"`
	InitDirs    []string          `json:"initial_dirs,omitempty"`
	Sibling     string            `json:"sibling_file,omitempty"`
	SiblingGone bool              `json:"sibling_removed,omitempty"`
	WriteFailed []int64           `json:"write_failures,omitempty"`
	OpenFailed  []string          `json:"open_failures,omitempty"`
	Initial     map[string]string `json:"-"`
	InitNames   []string          `json:"initial_files"`
	FinalList   []string          `json:"final_files"`
	EndMs       int64             `json:"end_ms"`
	EndNs       int64             `json:"end_ns"`
	epochMs     int64
	final       map[string]string
	removed     map[string]func() []byte
	gaps        [][2]int64 // jumped-over intervals of the virtual timeline (elapsed ns)
	jumped      bool
}

// c17Reconf: a configuration reload at runtime (level and interval; keep-days in half of them).
type c17Reconf struct {
	Call     int64 `json:"call"`
	Return   int64 `json:"return"`
	Level    int   `json:"level"`
	Interval int   `json:"interval_s"`
	KeepDays int   `json:"keep_days"` // may differ from the prologue's setting in half of the reloads
}

//go:norace
func (d *c17Data) onRemove(path string, read func() []byte) {
	d.removed[filepath.Base(path)] = read
}

// backDisplayed walks dur of *displayed* clock time back from elapsed e, skipping the
// intervals a clock step jumped over.
func (d *c17Data) backDisplayed(e, dur int64) int64 {
	cur := e
	for i := len(d.gaps) - 1; i >= 0 && dur > 0; i-- {
		g := d.gaps[i]
		if g[1] > cur {
			continue
		}
		if cur-g[1] >= dur {
			return cur - dur
		}
		dur -= cur - g[1]
		cur = g[0]
	}
	if cur-dur < 0 {
		return 0
	}
	return cur - dur
}

//go:norace
func (d *c17Data) addCall(c *c17Call) { d.Calls = append(d.Calls, c) }

//go:norace
func (d *c17Data) addRead(r *c17Read) { d.Reads = append(d.Reads, r) }

func ymd(ms int64) string { return time.UnixMilli(ms).UTC().Format("20060102") }
func dayUnit(ms int64) int64 {
	return ms / 86400000
}

// c17Home is the logger's home directory of the current run (set at the start of the body;
// post-run oracles run right after it in the same process)
var c17Home = "/wh"

func c17Body(rc *RunCtx) {
	d := &c17Data{Initial: map[string]string{}, removed: map[string]func() []byte{}}
	rc.Data = d
	disk := simos.Reset()
	disk.OnRemove = d.onRemove
	// the home path is data, not a pattern: one in six runs uses a name with characters that
	// mean something to a glob, next to a sibling the pattern would match
	c17Home = []string{"/wh", "/wh", "/wh", "/wh", "/wh", "/srv/node[1]"}[simrt.Choose(6)]
	d.Home = c17Home
	disk.MkdirAllRaw(c17Home)
	disk.WriteRaw(c17Home+"/secret.txt", []byte("TOP-SECRET-OUTSIDE-LOGS\n"))
	disk.WriteRaw("/etc/passwd", []byte("root:x:0:0:OUTSIDE\n"))
	// siblings of the logs directory whose names merely start with "logs"
	disk.WriteRaw(c17Home+"/logs_private/secret.txt", []byte("SIBLING-SECRET\n"))
	disk.WriteRaw(c17Home+"/logs.old/app.log", []byte("SIBLING-OLD-LOG\n"))
	disk.WriteRaw(c17Home+"/logsink/data.bin", []byte("SIBLING-DATA\n"))
	d.LogID = []string{"whatap", "RUM", "wa", "whatap", "RUM", "wa", "app?", "w[12]"}[simrt.Choose(8)]
	d.Oname = []string{"boot", "rumctl", "agent-1"}[simrt.Choose(3)]
	d.Level = 2 // default warn
	d.Interval = 10
	d.KeepDays = 7
	d.Rotation = true
	nowMs := simrt.NowNs() / 1e6
	d.epochMs = nowMs
	opts := []logfile.FileLoggerOption{logfile.WithHomePath(c17Home), logfile.WithOnameLogID(d.Oname, d.LogID)}
	useConf := simrt.Chance(2, 3)
	if !useConf {
		d.Level = simrt.Choose(4)
		opts = append(opts, logfile.WithLevel(d.Level))
	}
	// directory content before the logger starts
	if simrt.Chance(3, 4) {
		disk.MkdirAllRaw(c17Home + "/logs")
		put := func(name string) {
			disk.WriteRaw(c17Home+"/logs/"+name, []byte("old content of "+name+"\n"))
			d.Initial[name] = "old content of " + name + "\n"
		}
		day := int64(86400000)
		for _, age := range []int64{1, 3, 6, 7, 8, 9, 15, 40, 400} {
			if simrt.Chance(1, 2) {
				put(fmt.Sprintf("%s-%s-%s.log", d.LogID, d.Oname, ymd(nowMs-age*day)))
			}
		}
		if simrt.Chance(1, 2) {
			put(fmt.Sprintf("%s-%s-%s.log", d.LogID, "othername", ymd(nowMs-20*day))) // own id prefix, other object name
		}
		// calendar corners among the logger's own old files: leap days, month and year ends
		for _, date := range []string{"20240229", "20200229", "20231231", "20240131", "20240430", "20250228", "20240301"} {
			if simrt.Chance(1, 4) && date < ymd(nowMs) {
				put(fmt.Sprintf("%s-%s-%s.log", d.LogID, d.Oname, date))
			}
		}
		// own-looking files whose eight digits are no calendar day (what happens to them is not
		// defined; everything else must still be judged correctly in their presence)
		for _, date := range []string{"20230229", "20211301", "20240001", "20241232", "00000000", "99999999", "20230431"} {
			if simrt.Chance(1, 6) {
				put(fmt.Sprintf("%s-%s-%s.log", d.LogID, d.Oname, date))
			}
		}
		if simrt.Chance(1, 2) {
			put(fmt.Sprintf("%sx-%s-%s.log", d.LogID, d.Oname, ymd(nowMs-30*day))) // look-alike foreign
		}
		if simrt.Chance(1, 2) {
			put(fmt.Sprintf("x%s-%s-%s.log", d.LogID, d.Oname, ymd(nowMs-30*day)))
		}
		if simrt.Chance(1, 2) {
			put(fmt.Sprintf("other-%s-%s.log", d.Oname, ymd(nowMs-30*day)))
		}
		if simrt.Chance(1, 2) {
			put(fmt.Sprintf("%s-%s.log", d.LogID, d.Oname)) // undated own file
		}
		if simrt.Chance(1, 2) {
			put(fmt.Sprintf("%s-%s-%s.log", d.LogID, d.Oname, ymd(nowMs - 30*day)[:7])) // 7-digit date
		}
		if simrt.Chance(1, 3) {
			dn := fmt.Sprintf("%s-%s-%s.log", d.LogID, "dir", ymd(nowMs-30*day))
			disk.MkdirAllRaw(c17Home + "/logs/" + dn)
			d.InitDirs = append(d.InitDirs, dn)
		}
		// what the id or the home path would match if they were taken for patterns
		glob := strings.NewReplacer("?", "2", "[12]", "1", "[1]", "1")
		if g := glob.Replace(d.LogID); g != d.LogID && simrt.Chance(2, 3) {
			put(fmt.Sprintf("%s-%s-%s.log", g, d.Oname, ymd(nowMs-30*day)))
		}
		if g := glob.Replace(c17Home); g != c17Home {
			d.Sibling = g + "/logs/" + fmt.Sprintf("%s-%s-%s.log", d.LogID, d.Oname, ymd(nowMs-30*day))
			disk.WriteRaw(d.Sibling, []byte("another node's old log\n"))
		}
		if simrt.Chance(1, 2) {
			put("unrelated.txt")
		}
	}
	for k := range d.Initial {
		d.InitNames = append(d.InitNames, k)
	}
	sort.Strings(d.InitNames)
	// a second logger with another object name in the same home directory (same id); in half
	// of these runs it is constructed at the same time as the first one (both may find logs/
	// missing and try to create it)
	second := simrt.ChanceF(1, 5)
	var lg2 *logfile.FileLogger
	var lg2Task *simrt.Task
	// ... and in a quarter of them it is a twin: same object name, so both loggers append to
	// the very same files (two components of one process, or a logger constructed twice)
	oname2 := "second"
	if second && simrt.ChanceF(1, 4) {
		oname2 = d.Oname
		d.Twin = true
		simrt.Probe("twin_logger_same_file")
	}
	mk2 := func() {
		lg2 = logfile.NewFileLogger(logfile.WithHomePath(c17Home), logfile.WithOnameLogID(oname2, d.LogID), logfile.WithLevel(0))
	}
	if second && simrt.ChanceF(1, 2) {
		lg2Task = simrt.GoNamed("construct-second", mk2)
	}
	lg := logfile.NewFileLogger(opts...)
	if lg2Task != nil {
		simrt.Join(lg2Task)
		lg2.Error("SECONDFIRST", "tk2-first") // straight after its constructor returned
		d.SecondFirst = true
	}
	if simrt.ChanceF(1, 5) {
		// fault: from now on an open for append of a log file may fail (descriptor table full,
		// disk full, permission lost), at most twice per run. The logger then has no new file
		// and must carry on with the one it has.
		left := 2
		disk.FailOpen = func(p string, flag int) error {
			if left == 0 || flag&simos.O_APPEND == 0 || !strings.HasPrefix(p, c17Home+"/logs/") || strings.Contains(p, "-second") || d.Twin || !simrt.ChanceF(1, 2) {
				return nil
			}
			left--
			c17OpenFailed(d, p)
			simrt.Fault("log_open_failure")
			return []error{syscall.EMFILE, syscall.ENOSPC, syscall.EACCES}[simrt.ChooseF(3)]
		}
	}
	if useConf {
		d.Level = simrt.Choose(4)
		d.Interval = []int{10, 0, 1, 3, 30}[simrt.Choose(5)]
		d.KeepDays = []int{7, 0, 1, 3, 30}[simrt.Choose(5)]
		d.Rotation = !simrt.Chance(1, 5)
		lvName := []string{"debug", "info", "warn", "error"}[d.Level]
		lg.ApplyConfig(&stubConf{m: map[string]string{
			"log_rotation_enabled": strconv.FormatBool(d.Rotation), "log_keep_days": strconv.Itoa(d.KeepDays),
			"_log_interval": strconv.Itoa(d.Interval), "log_level": lvName}})
		if !d.Rotation {
			simrt.Probe("rotation_disabled")
		}
	}
	if simrt.ChanceF(1, 8) {
		// fault: a write to a log file fails (disk full for a moment), at most twice per run. The
		// line being written may be lost; nothing else may be, in particular not the lines after it
		left := 2
		disk.FailWrite = func(p string) error {
			if left == 0 || !strings.HasPrefix(p, c17Home+"/logs/") || strings.Contains(p, "-second") || d.Twin || !simrt.ChanceF(1, 6) {
				return nil
			}
			left--
			c17WriteFailed(d, simrt.Stamp())
			simrt.Fault("log_write_failure")
			return syscall.ENOSPC
		}
	}
	nTasks := 1 + simrt.Choose(4)
	d.Tasks = nTasks
	methods := []string{"Info", "Infof", "Infoln", "Warn", "Warnf", "Error", "Errorf", "Debug", "Debugf", "Println", "Printf"}
	type step struct {
		method, id string
		gapMs      int
	}
	n := 0
	var tasks []*simrt.Task
	for t := 0; t < nTasks; t++ {
		k := 3 + simrt.Choose(9)
		var plan []step
		for i := 0; i < k; i++ {
			id := ""
			switch simrt.Choose(5) {
			case 0:
				id = "REPEAT0001"
			case 1:
				id = "REPEAT0002"
			case 4:
				// multi-byte text: the tenth byte of the implicit id falls inside a character, and
				// the two variants differ only in that character
				id = []string{"서버연결 A", "서버연동 A"}[simrt.Choose(2)]
			default:
				id = fmt.Sprintf("U%09d", simrt.Choose(1000000))
			}
			gap := 0
			switch simrt.Choose(8) {
			case 1:
				gap = 1 + simrt.Choose(20)
			case 2:
				gap = 500 + simrt.Choose(2000)
			case 3:
				gap = 9000 + simrt.Choose(4000)
			case 4:
				gap = d.Interval*1000 + simrt.Choose(300) - 150
				if gap < 0 {
					gap = 0
				}
			}
			plan = append(plan, step{methods[simrt.Choose(len(methods))], id, gap})
		}
		tid := t + 1
		tk := simrt.GoNamed("logger"+strconv.Itoa(tid), func() {
			for _, st := range plan {
				if st.gapMs > 0 {
					simrt.Sleep(time.Duration(st.gapMs) * time.Millisecond)
				}
				n++
				c := &c17Call{N: n, Task: tid, Method: st.method, ID: st.id, Token: fmt.Sprintf("tok-%06d", n)}
				msg := st.id + " " + c.Token
				if len(c.ID) > 10 && st.method != "Println" && st.method != "Printf" {
					c.ID = c.ID[:10] // the implicit repeat id is the first ten bytes of the message
				}
				d.addCall(c)
				simrt.SetOp(n)
				c.CallMs, c.CallNs = dateutil.Now(), simrt.Elapsed()
				c.Call = simrt.Stamp()
				switch st.method {
				case "Info":
					lg.Info(msg)
				case "Infof":
					lg.Infof("%s", msg)
				case "Infoln":
					lg.Infoln(msg)
				case "Warn":
					lg.Warn(msg)
				case "Warnf":
					lg.Warnf("%s", msg)
				case "Error":
					lg.Error(msg)
				case "Errorf":
					lg.Errorf("%s", msg)
				case "Debug":
					lg.Debug(msg)
				case "Debugf":
					lg.Debugf("%s", msg)
				case "Println":
					lg.Println(st.id, c.Token)
				case "Printf":
					lg.Printf(st.id, "%s", c.Token)
				}
				c.Return = simrt.Stamp()
				c.RetMs, c.RetNs = dateutil.Now(), simrt.Elapsed()
				simrt.SetOp(0)
			}
		})
		tasks = append(tasks, tk)
	}
	// a second logger with another object name in the same home directory (same id): its
	// lines belong in its own files, and the first logger's in theirs
	if second {
		if lg2 == nil {
			mk2()
		}
		// both loggers prune by the shared id prefix: give the second one the first one's
		// retention settings so that what must stay and what must go is the same for both
		lg2.ApplyConfig(&stubConf{m: map[string]string{
			"log_rotation_enabled": strconv.FormatBool(d.Rotation), "log_keep_days": strconv.Itoa(d.KeepDays),
			"_log_interval": "0", "log_level": "debug"}})
		n2 := 2 + simrt.ChooseF(4)
		d.Second = n2
		tk := simrt.GoNamed("logger-second", func() {
			for i := 0; i < n2; i++ {
				simrt.Sleep(time.Duration(simrt.ChooseF(3000)) * time.Millisecond)
				lg2.Error(fmt.Sprintf("SECOND%04d", i), fmt.Sprintf("tk2-%04d", i))
			}
		})
		tasks = append(tasks, tk)
	}
	// configuration reload at runtime: level and repeat interval change while loggers are active
	if useConf && simrt.ChanceF(1, 4) {
		rcf := &c17Reconf{Level: simrt.ChooseF(4), Interval: []int{10, 0, 1, 3, 30}[simrt.ChooseF(5)], KeepDays: d.KeepDays}
		if simrt.ChanceF(1, 2) {
			// keep-days changes too, after the logger's first retention pass has already run
			rcf.KeepDays = []int{7, 0, 1, 3, 30}[simrt.ChooseF(5)]
		}
		at := simrt.ChooseF(12000)
		tk := simrt.GoNamed("reconfig", func() {
			simrt.Sleep(time.Duration(at) * time.Millisecond)
			simrt.Fault("reconfig_level_interval")
			if rcf.KeepDays != d.KeepDays {
				simrt.Fault("reconfig_keep_days")
			}
			c17SetReconf(d, rcf)
			rcf.Call = simrt.Stamp()
			lg.ApplyConfig(&stubConf{m: map[string]string{
				"log_rotation_enabled": strconv.FormatBool(d.Rotation), "log_keep_days": strconv.Itoa(rcf.KeepDays),
				"_log_interval": strconv.Itoa(rcf.Interval), "log_level": []string{"debug", "info", "warn", "error"}[rcf.Level]}})
			rcf.Return = simrt.Stamp()
		})
		tasks = append(tasks, tk)
	}
	// clock steps
	if simrt.Chance(1, 2) {
		nSteps := 1 + simrt.Choose(3)
		tk := simrt.GoNamed("clock", func() {
			for i := 0; i < nSteps; i++ {
				if i == 0 && simrt.ChanceF(1, 4) {
					// a step right at start-up: between the logger's construction and the first
					// run of its background goroutine
					simrt.Sleep(time.Duration(simrt.ChooseF(3)) * time.Millisecond)
				} else {
					simrt.Sleep(time.Duration(simrt.Choose(15000)) * time.Millisecond)
				}
				var j time.Duration
				switch simrt.ChooseF(6) {
				case 0:
					j = 20 * time.Second
				case 1:
					j = time.Hour
				case 2:
					j = 24 * time.Hour
				case 3:
					j = 72 * time.Hour
				case 4:
					j = 10 * 24 * time.Hour
				case 5:
					// to just before the next midnight
					ms := simrt.NowNs() / 1e6
					j = time.Duration(86400000-ms%86400000-int64(simrt.ChooseF(3000))) * time.Millisecond
					if j < 0 {
						j = time.Second
					}
				}
				before := ymd(simrt.NowNs() / 1e6)
				c17Gap(d, simrt.Elapsed(), simrt.Elapsed()+int64(j))
				simrt.AdvanceClock(int64(j))
				simrt.Fault("clock_step")
				d.jumped = true
				after := ymd(simrt.NowNs() / 1e6)
				if before != after {
					simrt.Probe("crossed_midnight")
				}
				c17Step(d, fmt.Sprintf("+%v at elapsed %.3fs (%s -> %s)", j, float64(simrt.Elapsed())/1e9, before, after))
			}
		})
		tasks = append(tasks, tk)
	}
	// reader
	if simrt.Chance(1, 2) {
		nReads := 1 + simrt.Choose(6)
		tk := simrt.GoNamed("reader", func() {
			for i := 0; i < nReads; i++ {
				simrt.Sleep(time.Duration(simrt.Choose(8000)) * time.Millisecond)
				today := fmt.Sprintf("%s-%s-%s.log", d.LogID, d.Oname, ymd(dateutil.Now()))
				if !d.Rotation {
					today = fmt.Sprintf("%s-%s.log", d.LogID, d.Oname)
				}
				names := []string{today, today, "missing.log", "../secret.txt", "../../etc/passwd", "sub/../../secret.txt", "/etc/passwd", "unrelated.txt", "./" + today,
					"../logs_private/secret.txt", "../logs.old/app.log", "../logsink/data.bin", "x/../../logs_private/secret.txt", "..", "../logs/../secret.txt"}
				name := names[simrt.Choose(len(names))]
				var size int64
				if b, ok := disk.ReadRaw(filepath.Join(c17Home, "logs", name)); ok {
					size = int64(len(b))
				}
				ends := []int64{-1, 0, size / 2, size, size + 10, int64(simrt.Choose(int(size) + 1)), int64(simrt.Choose(int(size) + 1))}
				r := &c17Read{Name: name, End: ends[simrt.Choose(len(ends))], Len: []int64{100, 1, 10, 100000, 2, 3, 7}[simrt.Choose(7)]}
				d.addRead(r)
				simrt.SetOp(9000 + i)
				func() {
					defer func() {
						if x := recover(); x != nil {
							r.Panic = fmt.Sprint(x)
						}
					}()
					ld := lg.Read(r.Name, r.End, r.Len)
					if ld == nil {
						r.Nil = true
					} else {
						r.Before, r.Next, r.Text = ld.Before, ld.Next, ld.Text
					}
				}()
				simrt.SetOp(0)
				if b, ok := disk.ReadRaw(filepath.Join(c17Home, "logs", r.Name)); ok {
					r.snap, r.snapOK = string(b), true
				} else if rd := d.removed[filepath.Base(filepath.Join(c17Home, "logs", r.Name))]; rd != nil && filepath.Dir(filepath.Join(c17Home, "logs", r.Name)) == filepath.Join(c17Home, "logs") {
					// retention removed the file between the call and this snapshot (a clock step
					// aged it): what Read returned is judged against the removed file's content
					r.snap, r.snapOK = string(rd()), true
				}
			}
		})
		tasks = append(tasks, tk)
	}
	for _, tk := range tasks {
		simrt.Join(tk)
	}
	// quiet period: at least one full retention cycle and several rotation cycles, no clock steps
	simrt.Settle(int64(75 * time.Second))
	d.EndMs, d.EndNs = dateutil.Now(), simrt.Elapsed()
	if d.Sibling != "" {
		_, ok := disk.ReadRaw(d.Sibling)
		d.SiblingGone = !ok
	}
	d.final = map[string]string{}
	for _, nme := range disk.ListRaw(c17Home + "/logs") {
		d.FinalList = append(d.FinalList, nme)
		if !strings.HasSuffix(nme, "/") {
			b, _ := disk.ReadRaw(c17Home + "/logs/" + nme)
			d.final[nme] = string(b)
		}
	}
}

//go:norace
func c17WriteFailed(d *c17Data, stamp int64) { d.WriteFailed = append(d.WriteFailed, stamp) }

//go:norace
func c17OpenFailed(d *c17Data, p string) {
	d.OpenFailed = append(d.OpenFailed, fmt.Sprintf("%s at elapsed %.3fs", filepath.Base(p), float64(simrt.Elapsed())/1e9))
}

//go:norace
func c17SetReconf(d *c17Data, r *c17Reconf) { d.Reconf = r }

//go:norace
func c17Gap(d *c17Data, a, b int64) { d.gaps = append(d.gaps, [2]int64{a, b}) }

//go:norace
func c17Step(d *c17Data, s string) { d.Steps = append(d.Steps, s) }

var reLineTS = regexp.MustCompile(`^\d{4}/\d{2}/\d{2} \d{2}:\d{2}:\d{2} `)

func c17After(rc *RunCtx, res *simrt.Result) {
	d := rc.Data.(*c17Data)
	rc.Sample = d
	viol := func(oracle, msg string) {
		rc.Violate("C17", oracle, oracle, fmt.Sprintf("%s | id=%s oname=%s level=%d interval=%ds keep=%dd rotation=%v steps=%v", msg, d.LogID, d.Oname, d.Level, d.Interval, d.KeepDays, d.Rotation, d.Steps))
	}
	var h uint64 = 1469598103934665603
	mix := func(x uint64) { h = (h ^ x) * 1099511628211 }
	// index tokens
	type hit struct {
		file string
		off  int
		line string
	}
	hits := map[string][]hit{}
	all := map[string]string{}
	for name, rd := range d.removed {
		all[name] = string(rd()) // final content of a file retention removed (incl. later appends through the open handle)
	}
	for name, c := range d.final {
		all[name] = c
	}
	var finalNames []string
	for name := range all {
		finalNames = append(finalNames, name)
	}
	sort.Strings(finalNames)
	for _, name := range finalNames {
		content := all[name]
		if content != "" && !strings.HasSuffix(content, "\n") {
			viol("torn-line", fmt.Sprintf("file %s does not end with a newline: a line was written only in part", name))
		}
		off := 0
		for _, ln := range strings.Split(content, "\n") {
			for _, idx := range regexp.MustCompile(`tok-\d{6}`).FindAllStringIndex(ln, -1) {
				tok := ln[idx[0]:idx[1]]
				hits[tok] = append(hits[tok], hit{name, off + idx[0], ln})
			}
			off += len(ln) + 1
		}
	}
	levelPass := func(m string, level int) bool {
		switch m {
		case "Error", "Errorf", "Println", "Printf":
			return true
		case "Warn", "Warnf":
			return level <= 2
		case "Info", "Infof", "Infoln":
			return level <= 1
		case "Debug", "Debugf":
			return level <= 0
		}
		return false
	}
	// settings that may have been in force during a call: the original ones unless the call
	// began after the reload returned, the reloaded ones unless it returned before the reload began
	settings := func(c *c17Call) (levels, intervals []int) {
		r := d.Reconf
		if r == nil || r.Call == 0 || r.Return == 0 || c.Call < r.Return {
			levels, intervals = append(levels, d.Level), append(intervals, d.Interval)
		}
		if r != nil && r.Call != 0 && (c.Return == 0 || c.Return > r.Call) {
			levels, intervals = append(levels, r.Level), append(intervals, r.Interval)
		}
		return
	}
	// mayWrite: some setting in force lets the line through; mustWrite: every one does
	mayWrite := func(c *c17Call) bool {
		ls, _ := settings(c)
		for _, l := range ls {
			if levelPass(c.Method, l) {
				return true
			}
		}
		return false
	}
	mustWrite := func(c *c17Call) bool {
		ls, _ := settings(c)
		for _, l := range ls {
			if !levelPass(c.Method, l) {
				return false
			}
		}
		return true
	}
	maxInterval := func(c *c17Call) int {
		_, is := settings(c)
		m := 0
		for _, i := range is {
			if i > m {
				m = i
			}
		}
		return m
	}
	levelOK := func(m string) bool { return levelPass(m, d.Level) }
	cached := func(m string) bool { return m != "Debug" && m != "Debugf" }
	ownName := func(ms int64) string {
		if !d.Rotation {
			return fmt.Sprintf("%s-%s.log", d.LogID, d.Oname)
		}
		return fmt.Sprintf("%s-%s-%s.log", d.LogID, d.Oname, ymd(ms))
	}
	for _, c := range d.Calls {
		hs := hits[c.Token]
		c.Found = len(hs)
		mix(uint64(c.Found))
		if c.Return == 0 {
			continue
		}
		if len(hs) > 1 {
			viol("duplicate-line", fmt.Sprintf("call #%d (%s %s) appears %d times in the log files", c.N, c.Method, c.Token, len(hs)))
			continue
		}
		if len(hs) == 1 {
			c.File, c.Off = hs[0].file, hs[0].off
			if !mayWrite(c) {
				viol("below-level-line", fmt.Sprintf("call #%d %s is below the configured level but was written", c.N, c.Method))
			}
			ln := hs[0].line
			if !reLineTS.MatchString(ln) || strings.Count(ln, "tok-") != 1 || !strings.Contains(ln, c.ID) {
				viol("torn-line", fmt.Sprintf("call #%d: its line is not whole: %q", c.N, ln))
			}
			// the line says at which level it was logged (and carries no other level's tag)
			tag := map[string]string{"Error": "[Error]", "Errorf": "[Error]", "Warn": "[Warn]", "Warnf": "[Warn]", "Info": "[Info]", "Infof": "[Info]", "Infoln": "[Info]", "Debug": "[Debug]", "Debugf": "[Debug]"}[c.Method]
			for _, tg := range []string{"[Error]", "[Warn]", "[Info]", "[Debug]"} {
				if strings.Contains(ln, tg) != (tg == tag) {
					viol("torn-line", fmt.Sprintf("call #%d (%s): its line carries the wrong level tag: %q", c.N, c.Method, ln))
					break
				}
			}
			// file name: id, object name and the date shown by the clock at (or within two cycles before) the call
			okName := false
			lo := d.backDisplayed(c.CallNs, int64(21*time.Second))
			cands := []int64{lo, c.CallNs, c.RetNs}
			for _, g := range d.gaps {
				if g[0] >= lo && g[0] <= c.RetNs {
					cands = append(cands, g[0])
				}
				if g[1] >= lo && g[1] <= c.RetNs {
					cands = append(cands, g[1])
				}
			}
			for _, e := range cands {
				if hs[0].file == ownName(d.epochMs+e/1e6) {
					okName = true
				}
			}
			if !d.Rotation || len(d.OpenFailed) > 0 {
				// after an injected open failure the logger legitimately stays on the file it has;
				// the statement does not define the name used while rotation is disabled; the
				// logger opens a dated file at construction and switches at a later cycle: accept
				// the undated name and any dated own name up to the call's date
				m := regexp.MustCompile("^" + regexp.QuoteMeta(d.LogID+"-"+d.Oname) + `-(\d{8})\.log$`).FindStringSubmatch(hs[0].file)
				if m != nil && m[1] <= ymd(c.RetMs) {
					okName = true
				}
			}
			if !okName {
				viol("wrong-file", fmt.Sprintf("call #%d at %s (clock %s) was written to %s; expected %s (or the previous day's file within 21 s of a date change)", c.N, time.UnixMilli(c.CallMs).UTC().Format(time.RFC3339), ymd(c.CallMs), hs[0].file, ownName(c.CallMs)))
			} else if hs[0].file == ownName(c.CallMs) && ymd(c.CallMs) != ymd(d.epochMs) {
				rc.Probe("rotation_new_file")
			}
			continue
		}
		// not found
		if !mustWrite(c) {
			continue
		}
		suppressed := false
		// hitBy: the injected write error struck while this call was in progress
		hitBy := func(e *c17Call) bool {
			for _, st := range d.WriteFailed {
				if st >= e.Call && (e.Return == 0 || st <= e.Return) {
					return true
				}
			}
			return false
		}
		if iv := maxInterval(c); cached(c.Method) && iv > 0 {
			for _, e := range d.Calls {
				// the suppressing line counts as emitted also when the injected error ate it: the
				// logger had done its part and remembered the id
				if e != c && e.ID == c.ID && cached(e.Method) && (len(hits[e.Token]) > 0 || hitBy(e)) && e.Call < c.Return &&
					e.RetMs > c.CallMs-int64(iv)*1000-50 { // its rate-limit stamp lies in [CallMs, RetMs]
					suppressed = true
				}
			}
		}
		if suppressed {
			rc.Probe("line_suppressed")
			continue
		}
		if hitBy(c) {
			rc.Probe("line_lost_to_injected_write_error")
			continue
		}
		viol("lost-line", fmt.Sprintf("call #%d (%s id %q %s, at clock %s, task %d) is at/above the level and not rate-limited but appears in no log file", c.N, c.Method, c.ID, c.Token, time.UnixMilli(c.CallMs).UTC().Format("2006-01-02T15:04:05.000"), c.Task))
	}
	// must-suppress: single task, no clock steps
	if d.Tasks == 1 && !d.jumped && d.Interval > 0 && d.Reconf == nil {
		var lastEmit = map[string]int64{}
		for _, c := range d.Calls {
			if !cached(c.Method) || !levelOK(c.Method) || c.Return == 0 {
				continue
			}
			if t, ok := lastEmit[c.ID]; ok && c.RetMs < t+int64(d.Interval)*1000-50 && c.Found > 0 {
				viol("not-suppressed", fmt.Sprintf("call #%d repeats id %q %d ms after the previous emitted line with that id (interval %d s) and was written again", c.N, c.ID, c.CallMs-t, d.Interval))
			}
			if c.Found > 0 {
				lastEmit[c.ID] = c.CallMs
			}
		}
	}
	// order within a file
	for _, a := range d.Calls {
		for _, b := range d.Calls {
			if a.Found == 1 && b.Found == 1 && a.File == b.File && a.Return != 0 && a.Return < b.Call && a.Off > b.Off {
				viol("order", fmt.Sprintf("call #%d returned before call #%d was invoked but its line comes later in %s", a.N, b.N, a.File))
			}
		}
	}
	// the second logger's lines: each exactly once, in a file carrying its object name
	for i := -1; i < d.Second; i++ {
		tok := fmt.Sprintf("tk2-%04d", i)
		if i < 0 {
			if !d.SecondFirst {
				continue
			}
			tok = "tk2-first"
		}
		n, where := 0, ""
		for _, name := range finalNames {
			if c := strings.Count(all[name], tok); c > 0 {
				n += c
				where = name
			}
		}
		mix(uint64(n))
		on2 := "second"
		if d.Twin {
			on2 = d.Oname
		}
		if n != 1 {
			viol("second-logger", fmt.Sprintf("line %s of the second logger (object name %q) appears %d times in the log files", tok, on2, n))
		} else if !strings.HasPrefix(where, d.LogID+"-"+on2+"-") && where != d.LogID+"-"+on2+".log" {
			viol("second-logger", fmt.Sprintf("line %s of the second logger (object name %q) was written to %s", tok, on2, where))
		}
	}
	// retention
	prefix := d.LogID + "-"
	exists := func(name string) bool { _, ok := d.final[name]; return ok }
	// every file that existed at some time: initial ones, the logger's own creations still
	// present, and those it created and retention removed again
	seenName := map[string]bool{}
	var everNames []string
	for _, lst := range [][]string{d.InitNames, finalNames} {
		for _, n := range lst {
			if !seenName[n] {
				seenName[n] = true
				everNames = append(everNames, n)
			}
		}
	}
	sort.Strings(everNames)
	for _, name := range everNames {
		mix(uint64(len(name)))
		own := strings.HasPrefix(name, prefix) && strings.HasSuffix(name, ".log")
		date := ""
		if own {
			x := strings.LastIndex(name, ".")
			s := strings.LastIndex(name, "-")
			if s >= 0 && s < x-1 {
				date = name[s+1 : x]
			}
		}
		dated := len(date) == 8 && regexp.MustCompile(`^\d{8}$`).MatchString(date)
		if !own || !dated {
			if !exists(name) {
				viol("retention-foreign-removed", fmt.Sprintf("file %q does not carry the logger's own dated name pattern but was removed", name))
			} else if !own {
				rc.Probe("retention_kept_foreign")
			}
			continue
		}
		ft, err := time.Parse("20060102", date)
		if err != nil {
			continue
		}
		ageEnd := dayUnit(d.EndMs) - dayUnit(ft.UnixMilli())
		agePrev := dayUnit(d.EndMs-80000) - dayUnit(ft.UnixMilli())
		// keep-days settings that were in force at some time (a reload at runtime may change it;
		// a second logger keeps the prologue's): a file must stay only if no setting ever called
		// it old, and must be gone once the final setting has called it old for a full cycle
		keepFinal := d.KeepDays
		if d.Reconf != nil {
			keepFinal = d.Reconf.KeepDays
		}
		young := true
		for _, k := range []int{d.KeepDays, keepFinal} {
			if d.Rotation && k > 0 && ageEnd > int64(k) {
				young = false
			}
		}
		switch {
		case young:
			if !exists(name) {
				viol("retention-young-removed", fmt.Sprintf("own file %q is %d days old (keep %d, after reload %d, rotation %v) but was removed", name, ageEnd, d.KeepDays, keepFinal, d.Rotation))
			}
		case d.Rotation && keepFinal > 0 && agePrev > int64(keepFinal):
			if exists(name) {
				viol("retention-old-kept", fmt.Sprintf("own file %q is %d days old (keep %d in force since the last reload) and a full retention cycle has passed, but it still exists", name, agePrev, keepFinal))
			} else {
				rc.Probe("retention_removed_file")
				if keepFinal != d.KeepDays && (d.KeepDays <= 0 || agePrev <= int64(d.KeepDays)) {
					rc.Probe("retention_removed_after_keep_days_lowered")
				}
			}
		}
	}
	for _, dn := range d.InitDirs {
		found := false
		for _, n := range d.FinalList {
			if n == dn+"/" {
				found = true
			}
		}
		if !found {
			viol("retention-foreign-removed", fmt.Sprintf("the directory %q inside logs/ is not a dated log file but was removed", dn))
		}
	}
	if d.SiblingGone {
		viol("retention-foreign-removed", fmt.Sprintf("the file %s belongs to another home directory but was removed", d.Sibling))
	}
	// Read
	logsDir := filepath.Join(c17Home, "logs")
	for _, r := range d.Reads {
		mix(uint64(len(r.Text)))
		if r.Panic != "" {
			viol("read-panic", fmt.Sprintf("Read(%q,%d,%d) panicked: %s", r.Name, r.End, r.Len, r.Panic))
			continue
		}
		resolved := filepath.Join(logsDir, r.Name)
		inside := strings.HasPrefix(resolved, logsDir+"/")
		if !inside {
			rc.Probe("read_outside_attempt")
			if !r.Nil {
				viol("read-outside-logs", fmt.Sprintf("Read(%q) resolves to %s, outside %s, and returned %q", r.Name, resolved, logsDir, truncate(r.Text, 60)))
			}
			continue
		}
		if r.Nil {
			continue
		}
		content, ok := r.snap, r.snapOK
		if !ok {
			viol("read-window", fmt.Sprintf("Read(%q) returned data for a file that does not exist", r.Name))
			continue
		}
		if int64(len(r.Text)) > r.Len {
			viol("read-window", fmt.Sprintf("Read(%q,%d,%d) returned %d bytes, more than requested", r.Name, r.End, r.Len, len(r.Text)))
		}
		if r.Before < 0 || r.Before+int64(len(r.Text)) > int64(len(content)) || content[r.Before:r.Before+int64(len(r.Text))] != r.Text {
			viol("read-window", fmt.Sprintf("Read(%q,%d,%d) reports offset %d but the text %q is not the file's content there", r.Name, r.End, r.Len, r.Before, truncate(r.Text, 60)))
		}
		if len(content) > len(r.Text)+int(r.Before) {
			rc.Probe("read_growing_file")
		}
	}
	rc.OutcomeHash = h
}
