package main

import (
	"fmt"
	"regexp"
	"sort"
	"strconv"
	"strings"
	"syscall"
	"time"

	"github.com/whatap/golib/config"
	"github.com/whatap/golib/config/conffile"
	whash "github.com/whatap/golib/util/hash"
	"github.com/whatap/golib/zzverif/simos"
	"github.com/whatap/golib/zzverif/simrt"
)

// ---- C18: file configuration tracks the file, notifies observers and writes back safely ----

func init() {
	setTier("C18", 60000, 300, 2000000, 1800)
	levelOf["C18"] = "exploration"
	ruleOf["C18"] = "one run = one seeded scenario (initial properties file, 1-5 external atomic edits at gaps from 1 ms to 10 s incl. several within one second, 1-3 reader tasks calling every typed getter, an observer, optional SetValues write-backs with prefix/suffix/exclude options) under one seeded schedule with ThreadSanitizer watching; for every write-back the file content visible at EVERY simulated-disk operation boundary (and between write chunks) is compared with {complete old, complete new} (crash-point enumeration) (plus: file removed / moved away and back / replaced with an older modification time, same-size edits, in-memory overrides by the application (ApplyDefault/ApplyConfig) before an edit, a reader woken while the reload has the file open, an external edit inside a write-back, a failing first write-back, environment-selected path, numeric edge values); non-trivial = a context switch inside a getter/SetValues or a disk boundary enumerated; distinct = distinct fingerprint of (switch sequence, getter outcomes, journal)"
	assumptionsOf["C18"] = []string{
		"external edits replace the file atomically (rename) and every replace gets a strictly larger modification time with nanosecond resolution; edits do not overlap a write-back",
		"crash model = process stop: the surviving state is the visible file content at an operation boundary; power-loss semantics (unsynced data lost) are not applied because the statement does not claim them",
		"generated files use key=value / key = value lines with keys \\w[\\w.]*, non-empty values from a properties-safe alphabet (inner spaces, '=', ':', '\\\\' escaped as the format requires), comment and blank lines without '='; '${' and empty values are not generated; the file is never deleted (properties.MustLoadFile ends the process on a missing file, which is outside the statement)",
		"a getter result observed while edits are in flight must be explained by some value the key has had (old or new), typed-parsed by an independent reference, or by the default",
		"keys written by SetValues but missing from the file are appended after all existing lines in unspecified relative order (Go map iteration)",
	}
	realComponents["C18"] = []string{"config/conffile.FileConfig (GetConfig/Destroy, reload loop, typed getters, SetValues)", "conffile.DefaultFileParser", "magiconair/properties parser", "config.ConfigObserver", "util/stringutil.Tokenizer", "util/hash"}
	stubComponents["C18"] = []string{"os/ioutil file system (simdisk with journal and chunked writes)", "external editor task", "sync, time (virtual clock), goroutine scheduler", "logger (EmptyLogger)"}
	probesFor["C18"] = []string{"two_edits_same_second", "reader_ran_inside_writeback", "crash_boundaries_enumerated", "write_split_into_chunks", "observer_notified", "writeback_done"}
	racePkgs := []string{"config/conffile", "config"}
	register(&Scenario{Prop: "C18", Name: "track", MaxSteps: 1500000, Body: c18Body, After: c18After, RacePkgs: racePkgs, Quanta: []int64{2000, 20000, 100000}})
}

type c18Item struct {
	Kind  string `json:"kind"` // comment | blank | kv
	Text  string `json:"text,omitempty"`
	Key   string `json:"key,omitempty"`
	Value string `json:"value,omitempty"`
	Sp    bool   `json:"sp,omitempty"` // "key = value" formatting
}

func c18Escape(v string) string { return strings.Replace(v, "\\", "\\\\", -1) }

func c18Render(items []c18Item) string {
	var sb strings.Builder
	for _, it := range items {
		switch it.Kind {
		case "comment":
			sb.WriteString(it.Text + "\n")
		case "blank":
			sb.WriteString("\n")
		case "kv":
			if it.Sp {
				sb.WriteString(it.Key + " = " + c18Escape(it.Value) + "\n")
			} else {
				sb.WriteString(it.Key + "=" + c18Escape(it.Value) + "\n")
			}
		}
	}
	out := sb.String()
	if c18NoFinalNL && len(items) > 0 && items[len(items)-1].Kind != "blank" {
		out = strings.TrimSuffix(out, "\n") // an editor that does not end the last line
	}
	return out
}

// c18NoFinalNL: external writers of this run leave the last line without a newline (set per
// run from the tape, like longKeys in C10)
var c18NoFinalNL bool

var c18Keys = []string{"debug", "net_udp_port", "tx.max_count", "hosts", "rate", "trace_ignore_set", "name", "log_level", "a.b.c", "limit64"}

func c18Value() string {
	if simrt.Chance(1, 8) {
		// non-ASCII values: the properties syntax (UTF-8) allows them; several runes share their
		// low byte with ASCII delimiters (U+042C, U+AC2C, U+012C end in 0x2C = ',')
		return []string{"서울,갬성,부산", "КАЗАНЬ,ТВЕРЬ", "6600,Ĭ6601,6602", "naïve café", "値=テスト", "a,Ь,b", "12,갬,34",
			"Ĭ", "über:straße"}[simrt.Choose(9)]
	}
	if simrt.Chance(1, 10) {
		// numbers at and beyond the edges of the getters' result types, and spellings a lenient
		// parser might accept
		return []string{"2147483647", "2147483648", "-2147483648", "-2147483649", "9223372036854775807", "9223372036854775808",
			"+5", "0x10", "1e3", "007", "1_000", "3.4028236e38", "1e400", "NaN", "-0"}[simrt.Choose(15)]
	}
	switch simrt.Choose(14) {
	case 0:
		return strconv.Itoa(simrt.Choose(100000))
	case 1:
		return "-" + strconv.Itoa(simrt.Choose(500))
	case 2:
		return []string{"true", "false", "1", "0", "T", "yes", "TRUE"}[simrt.Choose(7)]
	case 3:
		return strconv.Itoa(simrt.Choose(90)) + "." + strconv.Itoa(simrt.Choose(100))
	case 4:
		return "12x"
	case 5:
		return "9999999999999"
	case 6:
		return "1,2,3"
	case 7:
		return "10, 20 ,x,30"
	case 8:
		return "alpha, beta ,gamma"
	case 9:
		return "with inner spaces " + strconv.Itoa(simrt.Choose(100))
	case 10:
		return "a=b:c"
	case 11:
		return "C:\\dir\\file" + strconv.Itoa(simrt.Choose(10))
	case 12:
		return "v" + strconv.Itoa(simrt.Choose(1000000))
	default:
		return "7"
	}
}

func c18GenFile(prev []c18Item) []c18Item {
	var items []c18Item
	if prev == nil {
		n := 2 + simrt.Choose(6)
		used := map[string]bool{}
		for i := 0; i < n; i++ {
			switch simrt.Choose(6) {
			case 0:
				items = append(items, c18Item{Kind: "comment", Text: "# comment " + strconv.Itoa(simrt.Choose(1000))})
			case 1:
				items = append(items, c18Item{Kind: "blank"})
			default:
				k := c18Keys[simrt.Choose(len(c18Keys))]
				if used[k] {
					continue
				}
				used[k] = true
				items = append(items, c18Item{Kind: "kv", Key: k, Value: c18Value(), Sp: simrt.Chance(1, 4)})
			}
		}
		return items
	}
	// edit: change some values, maybe add a key, maybe add a comment; never remove keys
	items = append(items, prev...)
	if simrt.Chance(1, 5) {
		// same-size edit: one value changes in its last character, the file keeps its length
		// (a reload that decides "unchanged" from the size, or from a digest of too little, misses it)
		var cand []int
		for i := range items {
			if v := items[i].Value; items[i].Kind == "kv" && len(v) > 0 {
				if c := v[len(v)-1]; (c >= '0' && c <= '9') || (c >= 'a' && c <= 'y') {
					cand = append(cand, i)
				}
			}
		}
		if len(cand) > 0 {
			i := cand[simrt.Choose(len(cand))]
			b := []byte(items[i].Value)
			if c := b[len(b)-1]; c >= '0' && c <= '9' {
				b[len(b)-1] = '0' + (c-'0'+1+byte(simrt.Choose(8)))%10
			} else {
				b[len(b)-1] = c + 1
			}
			items[i].Value = string(b)
			return items
		}
	}
	changed := false
	for i := range items {
		if items[i].Kind == "kv" && simrt.Chance(1, 3) {
			items[i].Value = c18Value()
			changed = true
		}
	}
	if simrt.Chance(1, 2) || !changed {
		used := map[string]bool{}
		for _, it := range items {
			used[it.Key] = true
		}
		k := c18Keys[simrt.Choose(len(c18Keys))]
		if !used[k] {
			items = append(items, c18Item{Kind: "kv", Key: k, Value: c18Value()})
		} else {
			for i := range items {
				if items[i].Key == k {
					items[i].Value = c18Value() + "z"
				}
			}
		}
	}
	if simrt.Chance(1, 4) {
		items = append(items, c18Item{Kind: "comment", Text: "! note " + strconv.Itoa(simrt.Choose(1000))})
	}
	return items
}

// c18KVKeys lists the keys a version of the file sets.
//
//go:norace
func c18KVKeys(d *c18Data) []string {
	var out []string
	for _, it := range d.cur {
		if it.Kind == "kv" {
			out = append(out, it.Key)
		}
	}
	return out
}

// ---- independent reference for typed getters ----

func refTokens(s, deli string) []string {
	if s == "" || deli == "" {
		return []string{s}
	}
	return strings.FieldsFunc(s, func(c rune) bool { return strings.ContainsRune(deli, c) })
}

type c18Get struct {
	Getter string `json:"g"`
	Key    string `json:"key"`
	Def    string `json:"def"`
	Out    string `json:"out"`
	Call   int64  `json:"call"`
	Return int64  `json:"return"`
	Task   int    `json:"task"`
}

// refGet computes what getter g must return when the key holds raw value v (present) or is absent.
func refGet(g, def string, v string, present bool) string {
	tv := strings.TrimSpace(v)
	if !present {
		tv = ""
	}
	switch g {
	case "GetValue":
		return tv
	case "GetValueDef":
		if tv == "" {
			return def
		}
		return tv
	case "GetBoolean":
		d := def == "true"
		if tv == "" {
			return strconv.FormatBool(d)
		}
		b, err := strconv.ParseBool(tv)
		if err != nil {
			return strconv.FormatBool(d)
		}
		return strconv.FormatBool(b)
	case "GetInt":
		d, _ := strconv.Atoi(def)
		if tv == "" {
			return strconv.Itoa(int(int32(d)))
		}
		n, err := strconv.ParseInt(tv, 10, 32)
		if err != nil {
			return strconv.Itoa(int(int32(d)))
		}
		return strconv.Itoa(int(int32(n)))
	case "GetLong":
		d, _ := strconv.ParseInt(def, 10, 64)
		if tv == "" {
			return strconv.FormatInt(d, 10)
		}
		n, err := strconv.ParseInt(tv, 10, 64)
		if err != nil {
			return strconv.FormatInt(d, 10)
		}
		return strconv.FormatInt(n, 10)
	case "GetFloat":
		d, _ := strconv.ParseFloat(def, 32)
		if tv == "" {
			return fmt.Sprint(float32(d))
		}
		f, err := strconv.ParseFloat(tv, 32)
		if err != nil {
			return fmt.Sprint(float32(d))
		}
		return fmt.Sprint(float32(f))
	case "GetIntSet":
		src := tv
		if src == "" {
			src = def
		}
		out := []int32{}
		for _, t := range refTokens(src, ",") {
			if n, err := strconv.Atoi(strings.TrimSpace(t)); err == nil {
				out = append(out, int32(n))
			}
		}
		return fmt.Sprint(out)
	case "GetStringArray":
		src := tv
		if src == "" {
			src = def
		}
		if src == "" {
			return "[]"
		}
		out := []string{}
		for _, t := range refTokens(src, ",") {
			out = append(out, strings.TrimSpace(t))
		}
		return fmt.Sprintf("%q", out)
	case "GetStringHashSet":
		src := tv
		if src == "" {
			src = def
		}
		out := []int32{}
		for _, t := range refTokens(src, ",") {
			out = append(out, whash.HashStr(strings.TrimSpace(t)))
		}
		return fmt.Sprint(out)
	}
	return "?"
}

func c18Call(cfg config.Config, g, key, def string) string {
	switch g {
	case "GetValue":
		return cfg.GetValue(key)
	case "GetValueDef":
		return cfg.GetValueDef(key, def)
	case "GetBoolean":
		return strconv.FormatBool(cfg.GetBoolean(key, def == "true"))
	case "GetInt":
		d, _ := strconv.Atoi(def)
		return strconv.Itoa(int(cfg.GetInt(key, d)))
	case "GetLong":
		d, _ := strconv.ParseInt(def, 10, 64)
		return strconv.FormatInt(cfg.GetLong(key, d), 10)
	case "GetFloat":
		d, _ := strconv.ParseFloat(def, 32)
		return fmt.Sprint(cfg.GetFloat(key, float32(d)))
	case "GetIntSet":
		return fmt.Sprint(cfg.GetIntSet(key, def, ","))
	case "GetStringArray":
		return fmt.Sprintf("%q", cfg.GetStringArray(key, def, ","))
	case "GetStringHashSet":
		return fmt.Sprint(cfg.GetStringHashSet(key, def, ","))
	}
	return "?"
}

var c18Getters = []string{"GetValue", "GetValueDef", "GetBoolean", "GetInt", "GetLong", "GetFloat", "GetIntSet", "GetStringArray", "GetStringHashSet"}

func c18Def(g string) string {
	switch g {
	case "GetBoolean":
		return []string{"true", "false"}[simrt.Choose(2)]
	case "GetInt", "GetLong":
		return strconv.Itoa(simrt.Choose(50) - 5)
	case "GetFloat":
		return []string{"1.5", "0", "-2.25"}[simrt.Choose(3)]
	case "GetIntSet":
		return []string{"", "4,5", "9"}[simrt.Choose(3)]
	case "GetStringArray", "GetStringHashSet":
		return []string{"", "x,y", "dflt"}[simrt.Choose(3)]
	case "GetValueDef":
		return "dv" + strconv.Itoa(simrt.Choose(5))
	}
	return ""
}

type c18Notif struct {
	Stamp int64             `json:"stamp"`
	Seen  map[string]string `json:"seen"`
}

type c18WB struct {
	KV         map[string]string `json:"kv"`
	Start      int64             `json:"start"`
	End        int64             `json:"end"`
	Old        string            `json:"old"`
	New        string            `json:"new"`
	Bounds     []string          `json:"boundaries"`
	BadBound   string            `json:"bad_boundary,omitempty"`
	BadText    string            `json:"bad_text,omitempty"`
	Expect     []c18Item         `json:"-"`
	Added      map[string]string `json:"-"`
	Failed     string            `json:"injected_failure,omitempty"` // this write-back met an injected disk error
	Overlapped bool              `json:"external_edit_inside,omitempty"`
	interm     []string
}

type c18Data struct {
	sameMs      int      // two-step save around a reload: 1 armed, 2 first step done, 3 both done
	FinalKeys   []string `json:"final_keys,omitempty"`
	NoFinalNL   bool     `json:"no_final_newline,omitempty"`
	Overlaps    int      `json:"external_edits_inside_writebacks,omitempty"`
	overlapNext []c18Item
	Versions    [][]c18Item `json:"-"`
	VersionStr  []string    `json:"versions"`
	EditStamps  []int64     `json:"edit_stamps"`
	EditMs      []int64     `json:"edit_ms"`
	Gets        []*c18Get   `json:"gets"`
	Final       []*c18Get   `json:"final_gets"`
	Notifs      []*c18Notif `json:"notifications"`
	WBs         []*c18WB    `json:"writebacks"`
	Prefix      string      `json:"prefix"`
	Suffix      string      `json:"suffix"`
	Exclude     []string    `json:"exclude"`
	FinalFile   string      `json:"final_file"`
	ever        map[string]map[string]bool
	cur         []c18Item
	lastChange  int64
	inWB        *c18WB
	path        string
	disk        *simos.Disk
}

//go:norace
func (d *c18Data) noteVersion(items []c18Item) {
	for _, it := range items {
		if it.Kind == "kv" {
			if d.ever[it.Key] == nil {
				d.ever[it.Key] = map[string]bool{}
			}
			d.ever[it.Key][it.Value] = true
		}
	}
}

// c18BuiltinDefaults: see the removal edit. Only the two workload keys that have a
// built-in default are named; convergence is judged on keys present in the final file and
// on a key that never existed, so the built-in table itself is not mirrored.
//
//go:norace
func c18BuiltinDefaults(d *c18Data) {
	for k, v := range map[string]string{"debug": "false", "net_udp_port": "6600"} {
		if d.ever[k] == nil {
			d.ever[k] = map[string]bool{}
		}
		d.ever[k][v] = true
	}
}

// externalEdit replaces the file with a freshly generated next version (raw: usable from hooks).
//
//go:norace
func (d *c18Data) externalEdit(fault string) {
	next := c18GenFile(d.cur)
	d.cur = next
	d.Versions = append(d.Versions, next)
	d.noteVersion(next)
	d.EditMs = append(d.EditMs, simrt.NowNs()/1e6)
	d.EditStamps = append(d.EditStamps, simrt.Stamp())
	d.disk.ReplaceRaw(d.path, []byte(c18Render(next)))
	simrt.Fault(fault)
	d.lastChange = simrt.Elapsed()
}

//go:norace
func (d *c18Data) addGet(g *c18Get) { d.Gets = append(d.Gets, g) }

//go:norace
func (d *c18Data) addNotif(n *c18Notif) { d.Notifs = append(d.Notifs, n) }

type c18Observer struct {
	d *c18Data
	// registry/child: on its first notification the observer registers another observer (a
	// component created lazily once the configuration enables it does that in its constructor)
	registry *config.ConfigObserver
	child    bool
}

func (o *c18Observer) ApplyConfig(conf config.Config) {
	if d := o.d; !o.child && d.sameMs == 2 {
		// second step of the two-step save: the version written just before the reload looked
		// at the file has been loaded; the next one follows within the same millisecond (when
		// the reload itself took less than that)
		d.sameMs = 3
		d.externalEdit("edit_right_after_reload")
	}
	if o.registry != nil {
		r := o.registry
		o.registry = nil
		simrt.Probe("observer_registers_observer_from_callback")
		r.Add("c18-child", &c18Observer{d: o.d, child: true})
	}
	if o.child {
		simrt.Probe("child_observer_notified")
		return
	}
	n := &c18Notif{Stamp: simrt.Stamp(), Seen: map[string]string{}}
	for _, k := range c18Keys {
		n.Seen[k] = conf.GetValue(k)
	}
	o.d.addNotif(n)
	simrt.Probe("observer_notified")
}

//go:norace
func (d *c18Data) boundary(kind, path string) {
	wb := d.inWB
	if wb != nil && d.overlapNext != nil && simrt.ChanceF(1, 2) {
		// an external edit lands in the middle of the application's write-back (between two of
		// its disk operations). Whichever of the two survives on disk, the configuration must
		// afterwards reflect the file.
		next := d.overlapNext
		d.overlapNext = nil
		wb.Overlapped = true
		d.Overlaps++
		simrt.Fault("external_edit_inside_writeback")
		d.noteVersion(next)
		d.Versions = append(d.Versions, next)
		d.EditMs = append(d.EditMs, simrt.NowNs()/1e6)
		d.EditStamps = append(d.EditStamps, simrt.Stamp())
		d.disk.ReplaceRaw(d.path, []byte(c18Render(next)))
		d.lastChange = simrt.Elapsed()
	}
	if wb == nil || path != d.path {
		return
	}
	b, _ := d.disk.ReadRaw(d.path)
	s := string(b)
	wb.Bounds = append(wb.Bounds, kind)
	simrt.Probe("crash_boundaries_enumerated")
	if s != wb.Old && wb.BadBound == "" {
		// new content unknown until the call returns: remember every distinct intermediate state
		wb.BadBound = kind + "#" + strconv.Itoa(len(wb.Bounds))
		wb.BadText = s
		wb.interm = append(wb.interm, s)
	} else if s != wb.Old {
		wb.interm = append(wb.interm, s)
	}
}

func c18Body(rc *RunCtx) {
	d := &c18Data{ever: map[string]map[string]bool{}, path: "/wh/whatap.conf"}
	rc.Data = d
	c18NoFinalNL = simrt.ChanceF(1, 3)
	d.NoFinalNL = c18NoFinalNL
	disk := simos.Reset()
	d.disk = disk
	disk.MkdirAllRaw("/wh")
	switch simrt.Choose(4) {
	case 1:
		disk.Env["WHATAP_CONFIG"] = "custom.conf" // other file name through the environment
		d.path = "/wh/custom.conf"
	case 2:
		disk.Env["WHATAP_CONFIG_HOME"] = "/etc/whatap" // other directory through the environment
		disk.MkdirAllRaw("/etc/whatap")
		d.path = "/etc/whatap/whatap.conf"
	}
	d.cur = c18GenFile(nil)
	d.Versions = append(d.Versions, d.cur)
	d.noteVersion(d.cur)
	disk.WriteRaw(d.path, []byte(c18Render(d.cur)))
	disk.OnBoundary = d.boundary
	obs := config.NewConfigObserver()
	o18 := &c18Observer{d: d}
	if simrt.ChanceF(1, 4) {
		o18.registry = obs
	}
	obs.Add("c18", o18)
	opts := []conffile.FileConfigOption{conffile.WithHomePath("/wh"), conffile.WithConfigObserver(obs)}
	switch simrt.Choose(4) {
	case 1:
		d.Prefix = "whatap."
		opts = append(opts, conffile.WithPrefix(d.Prefix))
	case 2:
		d.Suffix = ".x"
		opts = append(opts, conffile.WithSuffix(d.Suffix))
	case 3:
		d.Exclude = []string{"name", "rate"}
		opts = append(opts, conffile.WithExcludeKeys(d.Exclude))
	}
	cfg := conffile.GetConfig(opts...)
	simrt.OnReset(func() { cfg.Destroy() })

	nEdits := 1 + simrt.Choose(5)
	nReaders := 1 + simrt.Choose(3)
	doWB := simrt.Chance(1, 2)
	simrt.SetStepsGuess(4000)
	var tasks []*simrt.Task
	stop := false
	for r := 0; r < nReaders; r++ {
		rid := r + 1
		nGets := 4 + simrt.Choose(24)
		type gp struct {
			g, key, def string
			gapUs       int
		}
		var plan []gp
		for i := 0; i < nGets; i++ {
			g := c18Getters[simrt.Choose(len(c18Getters))]
			gapUs := 0
			switch simrt.Choose(4) {
			case 1:
				gapUs = 1 + simrt.Choose(2000)
			case 2:
				gapUs = 100000 + simrt.Choose(3000000)
			}
			plan = append(plan, gp{g, c18Keys[simrt.Choose(len(c18Keys))], c18Def(g), gapUs})
		}
		tk := simrt.GoNamed("reader"+strconv.Itoa(rid), func() {
			for _, p := range plan {
				if stop {
					return
				}
				if p.gapUs > 0 {
					simrt.Sleep(time.Duration(p.gapUs) * time.Microsecond)
				}
				g := &c18Get{Getter: p.g, Key: p.key, Def: p.def, Task: rid}
				d.addGet(g)
				simrt.SetOp(len(d.Gets))
				g.Call = simrt.Stamp()
				g.Out = c18Call(cfg, p.g, p.key, p.def)
				g.Return = simrt.Stamp()
				simrt.SetOp(0)
				if d.inWB != nil {
					simrt.Probe("reader_ran_inside_writeback")
				}
			}
		})
		tasks = append(tasks, tk)
	}
	if !doWB && simrt.ChanceF(1, 3) {
		// a reader that is busy exactly while a reload is under way: it parks until the
		// configuration file is opened for reading (the reload has seen a change and is about to
		// parse and install it) and then issues a burst of getter calls, the schedule deciding
		// how they interleave with the steps of the reload
		var reloadWait []*simrt.Task
		disk.OnOpen = func(p string, flag int) {
			if p == d.path && flag&(simos.O_WRONLY|simos.O_RDWR) == 0 {
				for _, t := range reloadWait {
					simrt.MakeRunnable(t)
				}
				reloadWait = nil
			}
		}
		rid := 9
		tk := simrt.GoNamed("reader-at-reload", func() {
			for round := 0; round < 6 && !stop; round++ {
				simrt.SleepOrWake(12*time.Second, &reloadWait)
				n := 2 + simrt.ChooseF(5)
				for i := 0; i < n && !stop; i++ {
					gname := c18Getters[simrt.ChooseF(len(c18Getters))]
					key := c18Keys[simrt.ChooseF(len(c18Keys))]
					if kv := c18KVKeys(d); len(kv) > 0 && simrt.ChanceF(3, 4) {
						key = kv[simrt.ChooseF(len(kv))]
					}
					g := &c18Get{Getter: gname, Key: key, Def: c18Def(gname), Task: rid}
					d.addGet(g)
					simrt.SetOp(len(d.Gets))
					g.Call = simrt.Stamp()
					g.Out = c18Call(cfg, gname, key, g.Def)
					g.Return = simrt.Stamp()
					simrt.SetOp(0)
					simrt.Probe("getter_during_reload_burst")
				}
			}
		})
		tasks = append(tasks, tk)
	}
	editor := simrt.GoNamed("editor", func() {
		for e := 0; e < nEdits; e++ {
			gaps := []int{1, 300, 900, 40, 1500, 3100, 4000, 10000, 2999}
			simrt.Sleep(time.Duration(gaps[simrt.Choose(len(gaps))]) * time.Millisecond)
			for d.inWB != nil { // edits do not overlap a write-back (assumption)
				simrt.Sleep(50 * time.Millisecond)
			}
			if !doWB && simrt.ChanceF(1, 8) {
				// the file is moved away and, after a while, moved back untouched: same content,
				// same modification time. Whatever the absence did to the configuration, the
				// file's key=values must be visible again afterwards.
				if back, ok := disk.DetachRaw(d.path); ok {
					simrt.Fault("config_file_moved_away_and_back")
					c18BuiltinDefaults(d)
					simrt.Sleep(time.Duration([]int{500, 2900, 3100, 4000, 7000}[simrt.ChooseF(5)]) * time.Millisecond)
					back()
					d.EditMs = append(d.EditMs, simrt.NowNs()/1e6)
					d.EditStamps = append(d.EditStamps, simrt.Stamp())
					d.lastChange = simrt.Elapsed()
					continue
				}
			}
			if !doWB && simrt.ChanceF(1, 8) {
				// the application overrides values in memory through the public interface
				// (ApplyDefault re-installs the built-in defaults, ApplyConfig sets given keys);
				// the edit that follows must make every key=value of the file visible again,
				// also those lines that the edit leaves as they were
				simrt.Fault("application_overrides_in_memory")
				c18BuiltinDefaults(d)
				if ac, ok := cfg.(interface{ ApplyConfig(map[string]string) }); ok && simrt.ChanceF(1, 2) {
					over := map[string]string{}
					for i, it := range d.cur {
						if it.Kind == "kv" && simrt.ChanceF(1, 2) {
							v := "ov" + strconv.Itoa(e) + "x" + strconv.Itoa(i)
							over[it.Key] = v
							d.ever[it.Key][v] = true
						}
					}
					ac.ApplyConfig(over)
				} else {
					cfg.ApplyDefault()
				}
				simrt.Sleep(time.Duration([]int{0, 1, 200, 3100}[simrt.ChooseF(4)]) * time.Millisecond)
			}
			next := c18GenFile(d.cur)
			d.cur = next
			d.Versions = append(d.Versions, next)
			d.noteVersion(next)
			nowMs := simrt.NowNs() / 1e6
			if n := len(d.EditMs); n > 0 && d.EditMs[n-1]/1000 == nowMs/1000 {
				simrt.Probe("two_edits_same_second")
			}
			d.EditMs = append(d.EditMs, nowMs)
			d.EditStamps = append(d.EditStamps, simrt.Stamp())
			if !doWB && simrt.ChanceF(1, 5) {
				// the file disappears for a while (deployment tools delete and re-create): while it
				// is away every key is absent; afterwards the new content must be picked up
				simos.Remove(d.path)
				simrt.Fault("config_file_removed")
				// a reload that finds no file installs the product's built-in defaults, two of
				// which are keys of this workload: from now on they explain a getter's result
				c18BuiltinDefaults(d)
				simrt.Sleep(time.Duration([]int{500, 2900, 3100, 4000, 7000}[simrt.ChooseF(5)]) * time.Millisecond)
				d.EditMs[len(d.EditMs)-1] = simrt.NowNs() / 1e6
				d.EditStamps[len(d.EditStamps)-1] = simrt.Stamp()
			}
			if simrt.ChanceF(1, 8) {
				// the new content arrives with a modification time in the past (a backup restored
				// with its time stamp, a file prepared an hour ago and moved into place)
				simrt.Fault("config_replaced_with_older_mtime")
				disk.ReplaceRawMtime(d.path, []byte(c18Render(next)), simrt.NowNs()-int64(time.Hour)+int64(e)*1000003)
			} else {
				disk.ReplaceRaw(d.path, []byte(c18Render(next)))
			}
			simrt.Note("external edit #" + strconv.Itoa(e+1))
			d.lastChange = simrt.Elapsed()
			if !doWB && simrt.ChanceF(1, 8) {
				// the file is moved away at the very moment a reader opens it (after the reload has
				// seen its attributes) and is back, untouched, a moment later
				armed := true
				disk.FailOpen = func(p string, flag int) error {
					if armed && p == d.path && flag&(simos.O_WRONLY|simos.O_RDWR) == 0 && d.inWB == nil {
						armed = false
						if back, ok := disk.DetachRaw(d.path); ok {
							simrt.Fault("config_file_away_while_being_opened")
							c18BuiltinDefaults(d)
							simrt.AfterFunc(time.Duration(100+simrt.ChooseF(3000))*time.Microsecond, func() {
								back()
								d.lastChange = simrt.Elapsed()
							})
						}
					}
					return nil
				}
				for w := 0; w < 70 && armed; w++ {
					simrt.Sleep(50 * time.Millisecond)
				}
				simrt.Sleep(5 * time.Millisecond)
				disk.FailOpen = nil
				d.lastChange = simrt.Elapsed()
			}
			if !doWB && d.sameMs == 0 && simrt.ChanceF(1, 6) {
				// a save in two steps around the next reload: the first lands the instant before
				// the reload looks at the file, the second right after it has loaded the first
				d.sameMs = 1
				disk.OnStat = func(p string) {
					if p == d.path && d.sameMs == 1 && d.inWB == nil {
						d.sameMs = 2
						d.externalEdit("edit_right_before_reload")
					}
				}
				for w := 0; w < 80 && d.sameMs != 3; w++ {
					simrt.Sleep(50 * time.Millisecond)
				}
				disk.OnStat = nil
			}
		}
	})
	tasks = append(tasks, editor)
	if doWB {
		nWB := 1 + simrt.Choose(2)
		// fault: the first write-back meets a disk error the process survives (descriptor table
		// full when the temporary file is opened, or no space when it is written); the file must
		// stay as it was, and the write-backs after it must be as good as ever
		failFirst := simrt.ChanceF(1, 4)
		if failFirst {
			nWB++
		}
		wbt := simrt.GoNamed("writer", func() {
			for w := 0; w < nWB; w++ {
				simrt.Sleep(time.Duration(200+simrt.Choose(9000)) * time.Millisecond)
				kv := map[string]string{}
				n := 1 + simrt.Choose(3)
				if simrt.ChanceF(1, 8) {
					n = 0 // nothing to write: the file must come out as it went in
				}
				for i := 0; i < n; i++ {
					kv[c18Keys[simrt.Choose(len(c18Keys))]] = c18Value()
				}
				if n > 0 && simrt.ChanceF(1, 4) {
					// the application re-asserts a value it currently sees (which may be stale: an
					// external edit of the last seconds is not loaded yet); it must reach the file
					k := c18Keys[simrt.ChooseF(len(c18Keys))]
					fk := k
					if d.Prefix != "" && !strings.HasPrefix(fk, d.Prefix) {
						fk = d.Prefix + fk
					}
					if d.Suffix != "" && !strings.HasSuffix(fk, d.Suffix) {
						fk = fk + d.Suffix
					}
					if v := cfg.GetValue(fk); v != "" {
						for kk := range kv {
							delete(kv, kk)
						}
						kv[k] = v
						simrt.Probe("writeback_reasserts_seen_value")
					}
				}
				wb := &c18WB{KV: kv, Added: map[string]string{}}
				b, _ := disk.ReadRaw(d.path)
				wb.Old = string(b)
				// expected new model
				exp := append([]c18Item(nil), d.cur...)
				for k, v := range kv {
					skip := false
					for _, x := range d.Exclude {
						if x == k {
							skip = true
						}
					}
					if skip {
						continue
					}
					fk := k
					if d.Prefix != "" && !strings.HasPrefix(fk, d.Prefix) {
						fk = d.Prefix + fk
					}
					if d.Suffix != "" && !strings.HasSuffix(fk, d.Suffix) {
						fk = fk + d.Suffix
					}
					found := false
					for i := range exp {
						if exp[i].Kind == "kv" && exp[i].Key == fk {
							exp[i].Value = v
							found = true
						}
					}
					if !found {
						wb.Added[fk] = v
					}
					if d.ever[fk] == nil {
						d.ever[fk] = map[string]bool{}
					}
					d.ever[fk][v] = true
				}
				wb.Expect = exp
				d.WBs = append(d.WBs, wb)
				if !failFirst && simrt.ChanceF(1, 4) {
					ov := c18GenFile(d.cur)
					have := false
					for i := range ov {
						if ov[i].Kind == "kv" && ov[i].Key == "a.b.c" {
							ov[i].Value, have = "ext"+strconv.Itoa(w), true
						}
					}
					if !have {
						ov = append(ov, c18Item{Kind: "kv", Key: "a.b.c", Value: "ext" + strconv.Itoa(w)})
					}
					d.overlapNext = ov
				}
				d.inWB = wb
				fired := ""
				if failFirst && w == 0 {
					switch kind := simrt.ChooseF(3); {
					case kind == 2:
						disk.FailRename = func(op, np string) error {
							if fired == "" && np == d.path {
								fired = "rename " + op + " -> " + np + ": permission denied"
								simrt.Fault("writeback_rename_failure")
								return syscall.EACCES
							}
							return nil
						}
					case kind == 0:
						disk.FailOpen = func(p string, flag int) error {
							if fired == "" && p != d.path && flag&(simos.O_WRONLY|simos.O_RDWR) != 0 {
								fired = "open " + p + ": too many open files"
								simrt.Fault("writeback_open_failure")
								return syscall.EMFILE
							}
							return nil
						}
					default:
						disk.FailWrite = func(p string) error {
							if fired == "" && p != d.path {
								fired = "write " + p + ": no space left on device"
								simrt.Fault("writeback_write_failure")
								return syscall.ENOSPC
							}
							return nil
						}
					}
				}
				simrt.SetOp(5000 + w)
				wb.Start = simrt.Stamp()
				cfg.SetValues(&kv)
				wb.End = simrt.Stamp()
				simrt.SetOp(0)
				d.inWB = nil
				d.overlapNext = nil
				disk.FailOpen, disk.FailWrite, disk.FailRename = nil, nil, nil
				nb, _ := disk.ReadRaw(d.path)
				wb.New = string(nb)
				if fired != "" {
					// the error hit the temporary file before anything was renamed into place
					wb.Failed = fired
					d.lastChange = simrt.Elapsed()
					continue
				}
				simrt.Probe("writeback_done")
				// later edits start from what is actually on disk (the relative order of appended
				// keys is unspecified); the content itself is judged in After against wb.Expect
				var cur []c18Item
				for _, ln := range strings.Split(strings.TrimSuffix(wb.New, "\n"), "\n") {
					if m := reKV.FindStringSubmatch(ln); m != nil {
						cur = append(cur, c18Item{Kind: "kv", Key: m[1], Value: strings.Replace(m[2], "\\\\", "\\", -1)})
					} else if ln == "" {
						cur = append(cur, c18Item{Kind: "blank"})
					} else {
						cur = append(cur, c18Item{Kind: "comment", Text: ln})
					}
				}
				if wb.New == "" {
					cur = nil
				}
				d.cur = cur
				d.noteVersion(cur)
				d.lastChange = simrt.Elapsed()
			}
		})
		tasks = append(tasks, wbt)
	}
	simrt.Join(editor)
	if doWB {
		simrt.Join(tasks[len(tasks)-1])
	}
	// convergence: 10 virtual seconds after the last change
	simrt.Settle(int64(10500 * time.Millisecond))
	stop = true
	fb, _ := disk.ReadRaw(d.path)
	d.FinalFile = string(fb)
	if d.Overlaps > 0 {
		// an external edit raced with a write-back: the model of the file is whatever is on disk
		var cur []c18Item
		for _, ln := range strings.Split(strings.TrimSuffix(d.FinalFile, "\n"), "\n") {
			if m := reKV.FindStringSubmatch(ln); m != nil {
				cur = append(cur, c18Item{Kind: "kv", Key: m[1], Value: strings.Replace(m[2], "\\\\", "\\", -1)})
			}
		}
		d.cur = cur
	}
	for _, it := range d.cur {
		if it.Kind != "kv" {
			continue
		}
		for _, g := range c18Getters {
			def := map[string]string{"GetBoolean": "false", "GetInt": "-3", "GetLong": "-4", "GetFloat": "1.5", "GetIntSet": "4,5", "GetStringArray": "x,y", "GetStringHashSet": "x,y", "GetValueDef": "dv"}[g]
			fg := &c18Get{Getter: g, Key: it.Key, Def: def}
			fg.Call = simrt.Stamp()
			fg.Out = c18Call(cfg, g, it.Key, def)
			fg.Return = simrt.Stamp()
			d.Final = append(d.Final, fg)
		}
	}
	// the key listing contains every key of the file
	d.FinalKeys = cfg.GetKeys()
	// an absent key falls back to the default
	for _, g := range c18Getters {
		def := map[string]string{"GetBoolean": "true", "GetInt": "17", "GetLong": "18", "GetFloat": "-2.25", "GetIntSet": "9", "GetStringArray": "dflt", "GetStringHashSet": "dflt", "GetValueDef": "dv"}[g]
		fg := &c18Get{Getter: g, Key: "never.set.key", Def: def}
		fg.Out = c18Call(cfg, g, "never.set.key", def)
		d.Final = append(d.Final, fg)
	}
}

var reKV = regexp.MustCompile(`^\s*([\w.]+)\s*=\s*(.*)$`)

func c18After(rc *RunCtx, res *simrt.Result) {
	d := rc.Data.(*c18Data)
	for _, v := range d.Versions {
		d.VersionStr = append(d.VersionStr, c18Render(v))
	}
	rc.Sample = d
	viol := func(oracle, msg string) { rc.Violate("C18", oracle, oracle, msg) }
	var h uint64 = 1469598103934665603
	mixs := func(s string) {
		for i := 0; i < len(s); i++ {
			h = (h ^ uint64(s[i])) * 1099511628211
		}
	}
	finalVal := map[string]string{}
	for _, it := range d.cur {
		if it.Kind == "kv" {
			finalVal[it.Key] = it.Value
		}
	}
	if d.FinalKeys != nil {
		have := map[string]bool{}
		for _, k := range d.FinalKeys {
			have[k] = true
		}
		var missing []string
		for k, v := range finalVal {
			if strings.TrimSpace(v) != "" && !have[k] {
				missing = append(missing, k)
			}
		}
		sort.Strings(missing)
		if len(missing) > 0 {
			viol("convergence:GetKeys", fmt.Sprintf("10 virtual seconds after the last change GetKeys() lacks %v although the file sets them", missing))
		}
	}
	// reads in flight: explained by some value the key has had, or absent
	for _, g := range d.Gets {
		mixs(g.Out)
		if g.Return == 0 {
			continue
		}
		ok := g.Out == refGet(g.Getter, g.Def, "", false)
		for v := range d.ever[g.Key] {
			if g.Out == refGet(g.Getter, g.Def, v, true) {
				ok = true
			}
		}
		if !ok {
			var vs []string
			for v := range d.ever[g.Key] {
				vs = append(vs, strconv.Quote(v))
			}
			sort.Strings(vs)
			viol("getter-value", fmt.Sprintf("%s(%q, default %q) returned %s, which no value the key has had (%s) nor its absence explains", g.Getter, g.Key, g.Def, g.Out, strings.Join(vs, ",")))
		}
	}
	// convergence + typed getters
	for _, g := range d.Final {
		v, present := finalVal[g.Key]
		want := refGet(g.Getter, g.Def, v, present)
		if g.Out != want {
			viol("convergence:"+g.Getter, fmt.Sprintf("10 virtual seconds after the last change %s(%q, default %q) returns %s, the file says %q (present=%v) => expected %s", g.Getter, g.Key, g.Def, g.Out, v, present, want))
		}
	}
	// observer: notified after the last change and saw that version
	if len(d.Notifs) == 0 && (len(d.EditStamps) > 0 || len(d.WBs) > 0) {
		viol("observer-not-notified", "the file changed but the registered observer was never notified")
	} else if len(d.Notifs) > 0 {
		last := d.Notifs[len(d.Notifs)-1]
		var fkeys []string
		for k := range finalVal {
			fkeys = append(fkeys, k)
		}
		sort.Strings(fkeys)
		for _, k := range fkeys {
			v := finalVal[k]
			isBase := false
			for _, bk := range c18Keys {
				if bk == k {
					isBase = true
				}
			}
			if isBase && last.Seen[k] != strings.TrimSpace(v) {
				viol("observer-stale", fmt.Sprintf("the last observer notification saw %s=%q but the final file says %q", k, last.Seen[k], v))
				break
			}
		}
	}
	// write-back
	for i, wb := range d.WBs {
		if wb.End == 0 {
			continue
		}
		mixs(strings.Join(wb.Bounds, ","))
		if wb.Overlapped {
			continue // old and new content are not defined for this one; convergence is judged at the end
		}
		// atomicity at every boundary: old or new complete content
		for _, s := range wb.interm {
			if s != wb.New {
				viol("writeback-not-atomic", fmt.Sprintf("write-back #%d: at a disk-operation boundary (%s) the file held neither the old nor the new complete content: %q (old %q, new %q); boundaries: %v", i+1, wb.BadBound, truncate(s, 200), truncate(wb.Old, 200), truncate(wb.New, 200), wb.Bounds))
				break
			}
		}
		if wb.Failed != "" {
			if wb.New != wb.Old {
				viol("writeback-content", fmt.Sprintf("write-back #%d %v met an injected error (%s) before anything was put in place, yet the file changed: old %q | new %q", i+1, wb.KV, wb.Failed, truncate(wb.Old, 300), truncate(wb.New, 300)))
			}
			continue
		}
		// content: comments byte-equal and in place, kv lines in order with expected values, added keys at the end
		lines := strings.Split(strings.TrimSuffix(wb.New, "\n"), "\n")
		if wb.New == "" {
			lines = nil
		}
		li := 0
		bad := ""
		for _, it := range wb.Expect {
			if li >= len(lines) {
				bad = fmt.Sprintf("line for %+v missing", it)
				break
			}
			ln := lines[li]
			switch it.Kind {
			case "comment":
				if ln != it.Text {
					bad = fmt.Sprintf("comment line %q became %q", it.Text, ln)
				}
			case "blank":
				if ln != "" {
					bad = fmt.Sprintf("blank line became %q", ln)
				}
			case "kv":
				m := reKV.FindStringSubmatch(ln)
				if m == nil || m[1] != it.Key || strings.Replace(m[2], "\\\\", "\\", -1) != it.Value {
					bad = fmt.Sprintf("expected %s=%q at line %d, found %q", it.Key, it.Value, li+1, ln)
				}
			}
			if bad != "" {
				break
			}
			li++
		}
		if bad == "" {
			rest := map[string]string{}
			for ; li < len(lines); li++ {
				m := reKV.FindStringSubmatch(lines[li])
				if m == nil {
					bad = fmt.Sprintf("unexpected trailing line %q", lines[li])
					break
				}
				rest[m[1]] = strings.Replace(m[2], "\\\\", "\\", -1)
			}
			if bad == "" {
				for k, v := range wb.Added {
					if rest[k] != v {
						bad = fmt.Sprintf("new key %s=%q not appended (found %q)", k, v, rest[k])
					}
				}
				if len(rest) != len(wb.Added) && bad == "" {
					bad = fmt.Sprintf("appended keys %v, expected %v", rest, wb.Added)
				}
			}
		}
		if bad != "" {
			viol("writeback-content", fmt.Sprintf("write-back #%d %v: %s | old file %q | new file %q", i+1, wb.KV, bad, truncate(wb.Old, 300), truncate(wb.New, 300)))
		}
	}
	rc.OutcomeHash = h
}

func truncate(s string, n int) string {
	if len(s) > n {
		return s[:n] + "..."
	}
	return s
}

// ---- crash-restart scenario: the process stops at a disk boundary of a write-back, a new
// process (a fresh FileConfig on the same disk) must find a complete file and must be
// able to write back again ----

type c18Crash struct {
	Initial   string            `json:"initial"`
	KV1       map[string]string `json:"kv1"`
	StopAt    int               `json:"stop_at_boundary"`
	Bounds    []string          `json:"boundaries_seen"`
	AtStop    string            `json:"file_at_stop"`
	Others    []string          `json:"other_files_at_stop"`
	KV2       map[string]string `json:"kv2"`
	Final     string            `json:"final_file"`
	Got       map[string]string `json:"got"`
	Stopped   bool              `json:"stopped"`
	Completed bool              `json:"completed_before_stop"`
	model     []c18Item
}

func init() {
	register(&Scenario{Prop: "C18", Name: "crash", MaxSteps: 600000, Body: c18CrashBody, After: c18CrashAfter, RacePkgs: []string{"config/conffile", "config"}, Quanta: []int64{2000, 20000, 100000}})
	probesFor["C18"] = append(probesFor["C18"], "process_stopped_mid_writeback", "restart_writeback_done")
}

func c18CrashBody(rc *RunCtx) {
	d := &c18Crash{KV1: map[string]string{}, KV2: map[string]string{}, Got: map[string]string{}}
	rc.Data = d
	c18NoFinalNL = simrt.ChanceF(1, 3)
	disk := simos.Reset()
	disk.MkdirAllRaw("/wh")
	path := "/wh/whatap.conf"
	items := c18GenFile(nil)
	d.model = items
	d.Initial = c18Render(items)
	disk.WriteRaw(path, []byte(d.Initial))
	n := 1 + simrt.Choose(3)
	for i := 0; i < n; i++ {
		d.KV1[c18Keys[simrt.Choose(len(c18Keys))]] = c18Value()
	}
	d.StopAt = 1 + simrt.ChooseF(8)
	var writer *simrt.Task
	seen := 0
	disk.OnBoundary = func(kind, p string) {
		if simrt.Cur() != writer || d.Stopped {
			return
		}
		seen++
		c18CrashNote(d, kind+" "+p)
		if seen == d.StopAt {
			d.Stopped = true
			b, _ := disk.ReadRaw(path)
			d.AtStop = string(b)
			for _, f := range disk.ListRaw("/wh") {
				if f != "whatap.conf" {
					d.Others = append(d.Others, f)
				}
			}
			simrt.Fault("process_stop")
			simrt.Probe("process_stopped_mid_writeback")
			simrt.Freeze() // never returns: no deferred code of the write-back runs
		}
	}
	cfg := conffile.GetConfig(conffile.WithHomePath("/wh"))
	writer = simrt.GoNamed("writer", func() {
		cfg.SetValues(&d.KV1)
		d.Completed = true
	})
	simrt.Settle(int64(2 * time.Second))
	// "restart": the old process is gone (its instance is destroyed), a new one starts on the same disk
	cfg.Destroy()
	disk.OnBoundary = nil
	simrt.Settle(int64(4 * time.Second))
	cfg2 := conffile.GetConfig(conffile.WithHomePath("/wh"))
	simrt.OnReset(func() { cfg2.Destroy() })
	m := 1 + simrt.Choose(2)
	for i := 0; i < m; i++ {
		d.KV2[c18Keys[simrt.Choose(len(c18Keys))]] = "r" + strconv.Itoa(simrt.Choose(100000))
	}
	cfg2.SetValues(&d.KV2)
	simrt.Probe("restart_writeback_done")
	simrt.Settle(int64(10500 * time.Millisecond))
	b, _ := disk.ReadRaw(path)
	d.Final = string(b)
	for k := range d.KV2 {
		d.Got[k] = cfg2.GetValue(k)
	}
}

//go:norace
func c18CrashNote(d *c18Crash, s string) { d.Bounds = append(d.Bounds, s) }

func c18CrashAfter(rc *RunCtx, res *simrt.Result) {
	d := rc.Data.(*c18Crash)
	rc.Sample = d
	var h uint64 = 1469598103934665603
	for _, c := range []byte(d.AtStop + "|" + d.Final + "|" + strings.Join(d.Bounds, ",")) {
		h = (h ^ uint64(c)) * 1099511628211
	}
	rc.OutcomeHash = h
	viol := func(oracle, msg string) { rc.Violate("C18", oracle, oracle, msg) }
	if d.Stopped {
		// the surviving file is the complete old content or a complete new one: every old kv
		// line still present with old or written value, and parsable line by line
		if d.AtStop != d.Initial {
			lines := strings.Split(strings.TrimSuffix(d.AtStop, "\n"), "\n")
			have := map[string]string{}
			for _, ln := range lines {
				if m := reKV.FindStringSubmatch(ln); m != nil {
					have[m[1]] = strings.Replace(m[2], "\\\\", "\\", -1)
				}
			}
			ok := strings.HasSuffix(d.AtStop, "\n") || d.AtStop == ""
			for _, it := range d.model {
				if it.Kind != "kv" {
					continue
				}
				v, present := have[it.Key]
				if !present || (v != it.Value && v != d.KV1[it.Key]) {
					ok = false
				}
			}
			for k, v := range d.KV1 {
				if have[k] != v {
					ok = false // a new version must be the COMPLETE new content
				}
			}
			if !ok {
				viol("writeback-not-atomic", fmt.Sprintf("the process stopped at disk boundary #%d (%v) of a write-back %v and left the file holding neither the complete old nor the complete new content: %q (old %q)", d.StopAt, d.Bounds, d.KV1, truncate(d.AtStop, 300), truncate(d.Initial, 300)))
			}
		}
	}
	// after the restart a write-back must work: written values read back and are in the file
	for _, k := range sortedKeys(d.KV2) {
		v := d.KV2[k]
		if d.Got[k] != strings.TrimSpace(v) {
			viol("writeback-after-crash", fmt.Sprintf("after a process stop at boundary #%d (%v; leftover files %v) a new process wrote %s=%q but reads back %q; file: %q", d.StopAt, d.Bounds, d.Others, k, v, d.Got[k], truncate(d.Final, 300)))
			break
		}
		if !strings.Contains(d.Final, k+"="+c18Escape(v)+"\n") {
			viol("writeback-after-crash", fmt.Sprintf("after a process stop at boundary #%d (%v; leftover files %v) a new process wrote %s=%q but the file does not contain it: %q", d.StopAt, d.Bounds, d.Others, k, v, truncate(d.Final, 300)))
			break
		}
	}
}

func sortedKeys(m map[string]string) []string {
	var ks []string
	for k := range m {
		ks = append(ks, k)
	}
	sort.Strings(ks)
	return ks
}
