package main

import (
	"sync"
	"time"

	"bufio"
	"fmt"
	"github.com/anishathalye/porcupine"
	"os"
	"regexp"
	"sort"
	"strings"

	"github.com/whatap/golib/zzverif/simrt"
)

// Violation is one oracle failure.
type Violation struct {
	Property string `json:"property"`
	Oracle   string `json:"oracle"`
	Sig      string `json:"sig"` // stable signature: matched against known_findings.json
	Msg      string `json:"msg"`
}

// RunCtx is per-run scratch shared by a scenario's Body (inside the simulation) and
// After (outside).
type RunCtx struct {
	Viols        []*Violation
	Data         interface{}
	Sample       interface{}
	OutcomeHash  uint64
	Inconclusive int
	NonTrivial   bool     // scenario may force (e.g. fault enumeration cells)
	Cells        []string // extra distinct-coverage cells (C04)
	Cell         int      // index of the enumerated cell (scenarios with Cells > 0)
	Label        string   // human label of the case (fallback violation signature)
	Probes       map[string]int
}

// Probe counts a rare-situation probe from post-run (outside-simulation) code.
func (rc *RunCtx) Probe(name string) {
	if rc.Probes == nil {
		rc.Probes = map[string]int{}
	}
	rc.Probes[name]++
}

//go:norace
func (rc *RunCtx) Violate(prop, oracle, sig, msg string) {
	rc.Viols = append(rc.Viols, &Violation{prop, oracle, sig, msg})
}

// Scenario is one simulated workload + oracles for a property.
type Scenario struct {
	Prop     string
	Name     string
	MaxSteps int64
	// Body runs as the root task inside the simulation.
	Body func(rc *RunCtx)
	// After runs on the driver goroutine after the run (post-hoc oracles over the history).
	After func(rc *RunCtx, res *simrt.Result)
	// StepcapIsViolation: exceeding the step cap is a property violation (livelock)
	// rather than an inconclusive run.
	StepcapIsViolation bool
	// RacePkgs: package path fragments whose frames make a race report relevant.
	RacePkgs []string
	// RaceIgnoreFuncs: regexp of function names excluded (configuration calls the property does not cover).
	RaceIgnore *regexp.Regexp
	// Rare: if > 0 the scenario takes only every Rare-th sampled run index (small spaces).
	Rare int
	// Quanta: virtual CPU time charged per yield (choices); nil = simulator default.
	Quanta []int64
	// Cells > 0: the scenario enumerates that many cells exhaustively (one run each)
	// before seeded sampling of the other scenarios starts.
	Cells int
}

var scenarios = map[string][]*Scenario{}

func register(s *Scenario) { scenarios[s.Prop] = append(scenarios[s.Prop], s) }

// RunReport is everything the runner learns from one run.
type RunReport struct {
	Scenario     string         `json:"scenario"`
	Cell         int            `json:"cell"`
	Gen          bool           `json:"gen,omitempty"` // no tape: replay by regenerating from the seed
	Seed         uint64         `json:"seed"`
	Viols        []*Violation   `json:"viols,omitempty"`
	Tape         simrt.Tape     `json:"tape"`
	Hash         uint64         `json:"hash"`
	NonTrivial   bool           `json:"nontrivial"`
	Steps        int64          `json:"steps"`
	Switches     int64          `json:"switches"`
	VirtualNs    int64          `json:"virtual_ns"`
	Policy       int            `json:"policy"`
	Faults       map[string]int `json:"faults,omitempty"`
	Probes       map[string]int `json:"probes,omitempty"`
	Sample       interface{}    `json:"sample,omitempty"`
	Trace        []string       `json:"trace,omitempty"`
	Machinery    string         `json:"machinery,omitempty"` // non-empty: machinery trouble (exit 2)
	Stepcap      bool           `json:"stepcap,omitempty"`
	Inconclusive int            `json:"inconclusive,omitempty"`
	Cells        []string       `json:"cells,omitempty"`
	HarnessRaces int            `json:"harness_races,omitempty"`
}

var raceLogPath string
var raceLogOff int64

func findScenario(prop, name string) *Scenario {
	for _, s := range scenarios[prop] {
		if s.Name == name {
			return s
		}
	}
	return nil
}

// runOne executes one run of scenario sc.
func runOne(sc *Scenario, seed uint64, replay *simrt.Tape, trace bool, cell int) *RunReport {
	rc := &RunCtx{Cell: cell}
	before := simrt.RaceErrors()
	cfg := simrt.Config{Seed: seed, Replay: replay, MaxSteps: sc.MaxSteps, TraceOn: trace, Quanta: sc.Quanta}
	res := simrt.Run(cfg, func() { sc.Body(rc) })
	rep := &RunReport{Scenario: sc.Name, Cell: cell, Seed: seed, Tape: res.Tape, Steps: res.Steps, Switches: res.Switches,
		VirtualNs: res.VirtualNs, Policy: res.Policy, Faults: res.Faults, Probes: res.Probes, Trace: res.Trace}
	if res.Fail != nil {
		f := res.Fail
		switch f.Kind {
		case "unsupported":
			rep.Machinery = "unsupported facility in instrumented code: " + f.Msg
		case "stepcap":
			rep.Stepcap = true
			if sc.StepcapIsViolation {
				rc.Violate(sc.Prop, "no-progress", "stepcap:"+sc.Name, f.Msg)
			}
		case "oracle-stop":
			// harness stopped the run after recording its own violation
		default:
			rc.Violate(sc.Prop, f.Kind, f.Kind+":"+sigOfFailure(f, rc.Label), f.Msg)
		}
	}
	if sc.After != nil && rep.Machinery == "" && res.Fail == nil {
		sc.After(rc, res)
	}
	if simrt.RaceBuild {
		after := simrt.RaceErrors()
		if after > before || raceLogPath != "" {
			rv, hr := collectRaces(sc)
			for _, v := range rv {
				rc.Viols = append(rc.Viols, v)
			}
			rep.HarnessRaces = hr
		}
	}
	for k, v := range rc.Probes {
		if rep.Probes == nil {
			rep.Probes = map[string]int{}
		}
		rep.Probes[k] += v
	}
	rep.Viols = rc.Viols
	rep.Sample = rc.Sample
	rep.Inconclusive = rc.Inconclusive
	rep.Cells = rc.Cells
	rep.Hash = simrt.Mix64(res.Hash, rc.OutcomeHash)
	rep.NonTrivial = res.OpSwitches > 0 || len(res.Faults) > 0 || rc.NonTrivial
	return rep
}

var reFrame = regexp.MustCompile(`^  (\S.*)\(\)$`)
var reHex = regexp.MustCompile(`\.func\d+(\.\d+)*$`)

// sigOfFailure extracts a stable signature from a simulator failure message: the
// innermost golib frame and the golib entry point of the attached stack, else the label,
// else the text.
func sigOfFailure(f *simrt.Failure, label string) string {
	if i := strings.Index(f.Msg, "\n"); i >= 0 {
		fr := golibFrames(f.Msg[i:], 100)
		if len(fr) > 0 {
			if fr[len(fr)-1] != fr[0] {
				return fr[0] + " via " + fr[len(fr)-1]
			}
			return fr[0]
		}
		if label != "" {
			return label
		}
		return f.Msg[:i]
	}
	if label != "" {
		return label
	}
	return f.Msg
}

var reGoStackFn = regexp.MustCompile(`^(github\.com/whatap/golib/[^\s(]+(?:\([^)]*\))?[^\s(]*)\(`)

// golibFrames returns up to n function names of golib frames (not zzverif) from a
// runtime.Stack dump.
func golibFrames(stack string, n int) []string {
	var out []string
	for _, ln := range strings.Split(stack, "\n") {
		if !strings.HasPrefix(ln, "github.com/whatap/golib/") || strings.Contains(ln, "/zzverif/") {
			continue
		}
		// strip argument list
		depth, cut := 0, -1
		for i := len(ln) - 1; i >= 0; i-- {
			if ln[i] == ')' {
				depth++
			} else if ln[i] == '(' {
				depth--
				if depth == 0 {
					cut = i
					break
				}
			}
		}
		fn := ln
		if cut > 0 {
			fn = ln[:cut]
		}
		fn = strings.TrimPrefix(fn, "github.com/whatap/golib/")
		out = append(out, fn)
		if len(out) >= n {
			break
		}
	}
	return out
}

// collectRaces reads new ThreadSanitizer reports from the GORACE log and turns the
// relevant ones into violations.
func collectRaces(sc *Scenario) (viols []*Violation, harness int) {
	if raceLogPath == "" {
		return nil, 0
	}
	f, err := os.Open(raceLogPath)
	if err != nil {
		return nil, 0
	}
	defer f.Close()
	if _, err := f.Seek(raceLogOff, 0); err != nil {
		return nil, 0
	}
	var blocks [][]string
	var cur []string
	in := false
	rd := bufio.NewReader(f)
	var consumed int64
	for {
		line, err := rd.ReadString('\n')
		if err != nil {
			break
		}
		consumed += int64(len(line))
		l := strings.TrimRight(line, "\n")
		if l == "==================" {
			if in {
				blocks = append(blocks, cur)
				cur = nil
				in = false
				raceLogOff += consumed
				consumed = 0
			} else {
				in = true
			}
			continue
		}
		if in {
			cur = append(cur, l)
		}
	}
	for _, b := range blocks {
		v, isHarness := raceViolation(sc, b)
		if v != nil {
			viols = append(viols, v)
		} else if isHarness {
			harness++
		}
	}
	return
}

func raceViolation(sc *Scenario, lines []string) (*Violation, bool) {
	// split into access stacks
	var stacks [][]string
	var cur []string
	collecting := false
	for _, l := range lines {
		if strings.HasPrefix(l, "Read at ") || strings.HasPrefix(l, "Write at ") ||
			strings.HasPrefix(l, "Previous read at ") || strings.HasPrefix(l, "Previous write at ") ||
			strings.HasPrefix(l, "Atomic ") || strings.HasPrefix(l, "Previous atomic ") {
			if collecting {
				stacks = append(stacks, cur)
			}
			cur = nil
			collecting = true
			continue
		}
		if strings.HasPrefix(l, "Goroutine ") {
			if collecting {
				stacks = append(stacks, cur)
				collecting = false
			}
			continue
		}
		if collecting {
			if m := reFrame.FindStringSubmatch(l); m != nil {
				cur = append(cur, m[1])
			}
		}
	}
	if collecting {
		stacks = append(stacks, cur)
	}
	if len(stacks) < 2 {
		return nil, false
	}
	var sigs []string
	for _, st := range stacks[:2] {
		fn := ""
		artefact := false
		for _, fr := range st {
			if strings.Contains(fr, "/zzverif/") {
				if strings.Contains(fr, "simrt.MapKeys") {
					continue // acts on golib's map on behalf of a golib range statement
				}
				// simulator-owned memory touched through a runtime helper (copy, append, map
				// access) that records accesses even in go:norace code: not golib's race
				artefact = true
				break
			}
			if strings.HasPrefix(fr, "github.com/whatap/golib/") {
				fn = fr
				break
			}
			if strings.HasPrefix(fr, "main.") || strings.HasPrefix(fr, "verifsim") {
				artefact = true // harness code: artefact of the cooperative scheduler
				break
			}
			// runtime, standard library, third-party: attributed to the golib caller below
		}
		if artefact || fn == "" {
			return nil, true
		}
		entry := fn
		for _, fr := range st {
			if strings.HasPrefix(fr, "github.com/whatap/golib/") && !strings.Contains(fr, "/zzverif/") {
				entry = fr
			}
		}
		norm := func(x string) string {
			x = strings.TrimPrefix(x, "github.com/whatap/golib/")
			return reHex.ReplaceAllString(x, "")
		}
		fn, entry = norm(fn), norm(entry)
		ok := len(sc.RacePkgs) == 0
		for _, p := range sc.RacePkgs {
			if strings.HasPrefix(fn, p) {
				ok = true
			}
		}
		if !ok {
			return nil, false
		}
		if sc.RaceIgnore != nil && (sc.RaceIgnore.MatchString(fn) || sc.RaceIgnore.MatchString(entry)) {
			return nil, false
		}
		if entry != fn {
			fn += " via " + entry
		}
		sigs = append(sigs, fn)
	}
	sort.Strings(sigs)
	sig := "race:" + sigs[0] + "|" + sigs[1]
	return &Violation{sc.Prop, "data-race", sig, "ThreadSanitizer: " + strings.Join(lines, "\n")}, false
}

// checkLinearizable runs porcupine with a time-out and does not return before porcupine's
// own goroutine has stopped calling the model: porcupine returns at once on a time-out while
// a Step may still be in flight, and a Step that executes golib code (C10's self-model)
// would then run on into the next simulated run, reading that run's package-level simulator
// as if it were one of its tasks (seen as a hung worker and as a one-off "unlock of unlocked
// mutex" in ~1 of 10^6 runs before this guard existed).
func checkLinearizable(model porcupine.Model, ops []porcupine.Operation, timeout time.Duration) porcupine.CheckResult {
	var mu sync.Mutex
	cancelled := false
	step := model.Step
	guarded := model
	guarded.Step = func(state, input, output interface{}) (bool, interface{}) {
		mu.Lock()
		defer mu.Unlock()
		if cancelled {
			return false, state
		}
		return step(state, input, output)
	}
	r := porcupine.CheckOperationsTimeout(guarded, ops, timeout)
	mu.Lock() // waits for a Step in flight
	cancelled = true
	mu.Unlock()
	return r
}

// sortedInts returns the keys of an int-keyed map in increasing order (oracles must not
// depend on Go's map iteration order).
func sortedInts(m interface{}) []int {
	var out []int
	switch mm := m.(type) {
	case map[int]int:
		for k := range mm {
			out = append(out, k)
		}
	case map[int]bool:
		for k := range mm {
			out = append(out, k)
		}
	}
	sort.Ints(out)
	return out
}

func fatal2(f string, a ...interface{}) {
	fmt.Fprintf(os.Stderr, "simrun: machinery error: "+f+"\n", a...)
	os.Exit(2)
}
