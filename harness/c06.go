package main

import (
	"bytes"
	"context"
	"encoding/binary"
	"fmt"
	"reflect"
	"sort"
	"strconv"
	"strings"
	"time"

	wio "github.com/whatap/golib/io"
	"github.com/whatap/golib/lang/pack"
	"github.com/whatap/golib/lang/value"
	wnet "github.com/whatap/golib/net"
	"github.com/whatap/golib/net/oneway"
	whash "github.com/whatap/golib/util/hash"
	"github.com/whatap/golib/zzverif/simnet"
	"github.com/whatap/golib/zzverif/simrt"
)

// ---- C06: one-way TCP client delivers whole frames, in order, at most once, and recovers ----

func init() {
	setTier("C06", 60000, 240, 1500000, 1800)
	levelOf["C06"] = "exploration"
	ruleOf["C06"] = "one run = one seeded scenario (direct or queue mode, 1-4 sender tasks x 2-6 sends of unique packs of mixed type/size/license, 0-3 seeded connection faults) under one seeded schedule, followed by a heal-and-recover phase; oracles O1-O7 over the bytes each simulated connection received, parsed by an independent frame parser (plus, since later waves: quiet periods beyond the 60 s time-outs, frames within a few bytes of the 2 MiB write buffer, a slow collector that is not a fault, an application-level Close after the senders, a manual drain through SendAndClear() after the application stopped the background goroutine, a heal that brings back only one of the two servers); non-trivial = a context switch inside a send or at least one fired fault; distinct = distinct fingerprint of (switch sequence, fault sequence, per-send outcome, received frame order)"
	assumptionsOf["C06"] = []string{
		"TCP is modelled by simnet: a passive collector per accepted connection; faults = dial refused/timeout, peer close (FIN) at a stream offset or while idle, peer reset at a stream offset (mid-write possible), first write after FIN accepted and lost, stalled reader with a 64 KiB send buffer and the client's own write deadline",
		"preemption between any two statements of net/oneway, util/queue, util/list, util/dateutil and inside lock, sleep and network operations",
		"the license hash function itself is trusted here (C15)",
		"a send that returned nil may be missing only if the simulator can point at the fault that ate it (bytes in the write-after-FIN slot, in a stalled send buffer, or a prefix at the tail of a faulted connection); in queue mode with faults only whole-frame loss is allowed and everything enqueued after the heal must arrive",
		"no oracle says which server must be chosen or how fast a send completes while faults flow",
	}
	realComponents["C06"] = []string{"net/oneway.OneWayTcpClient (public API, singleton via GetOneWayTcpClient/Destroy)", "bufio.Writer", "pack encoders (TextPack, LogSinkPack, TagCountPack)", "io.DataOutputX", "util/queue.RequestQueue", "util/hash.Hash64Str"}
	stubComponents["C06"] = []string{"net.DialTimeout/net.Conn (simnet)", "collector peer (passive sink + independent frame parser)", "sync.Mutex/Cond", "time (virtual clock)", "goroutine scheduler"}
	probesFor["C06"] = []string{"collector_slow", "client_closed_by_application", "reconnect_happened", "fault_mid_frame", "blocked_on_lock_held_inside_op", "queue_refused_put", "frame_larger_than_buffer", "peer_reset_mid_stream", "write_after_close_lost", "dial_refused", "recovered_after_heal"}
	register(&Scenario{Prop: "C06", Name: "healthy", MaxSteps: 3000000, Body: c06Body(false), After: c06After, Quanta: []int64{1000, 5000, 20000}})
	register(&Scenario{Prop: "C06", Name: "faults", MaxSteps: 3000000, Body: c06Body(true), After: c06After, Quanta: []int64{1000, 5000, 20000}})
}

type c06Send struct {
	ID      int    `json:"id"`
	Task    int    `json:"task"`
	Kind    string `json:"kind"`
	Size    int    `json:"size"`
	License string `json:"license"`
	Pcode   int64  `json:"pcode"`
	Pad     int    `json:"pad"`
	Flush   bool   `json:"flush"`
	Call    int64  `json:"call"`
	Return  int64  `json:"return"`
	Err     string `json:"err,omitempty"`
	Phase   string `json:"phase,omitempty"`
	frame   []byte
}

type c06Arrival struct {
	stamp int64
	conn  int
	upto  int
}

type c06Data struct {
	License2    string     `json:"second_life_license,omitempty"`
	Queue       bool       `json:"queue_mode"`
	QueueSize   int        `json:"queue_size"`
	ManualDrain bool       `json:"manual_drain,omitempty"` // background goroutine stopped by the application, queue drained with SendAndClear()
	DrainErr    string     `json:"drain_error,omitempty"`
	Faulty      bool       `json:"faulty"`
	Sends       []*c06Send `json:"sends"`
	Plan        []string   `json:"fault_plan"`
	HealStamp   int64      `json:"heal_stamp"`
	Conns       []string   `json:"conns"`
	net         *simnet.Network
	arrivals    []c06Arrival
	healed      bool
	dialWait    []*simrt.Task
}

//go:norace
func (d *c06Data) onDial(addr string) {
	for _, t := range d.dialWait {
		simrt.MakeRunnable(t)
	}
	d.dialWait = nil
}

//go:norace
func (d *c06Data) addSend(s *c06Send) { d.Sends = append(d.Sends, s) }

//go:norace
func (d *c06Data) onData(s *simnet.ServerSide) {
	d.arrivals = append(d.arrivals, c06Arrival{simrt.Stamp(), s.Ordinal, len(s.Recv)})
}

// The statement only says "the client reconnects on a later send"; the bound used for the
// liveness check is deliberately generous (golib needs up to 4: lost write-after-FIN, flush
// error without close, sticky bufio error + close, reconnect).
const c06RecoverySends = 6

const c06DefaultLicense = "x41-default-license"

// c06Kind: object kind / node ids are name hashes: any int32, zero included, in any combination
func c06Kind(id int) (okind, onode int32) {
	return []int32{0, 7, -7, 0, 2041}[id%5], []int32{0, 0, 3, -9, -739397152}[id%5]
}

func c06MakePack(id int, kind int, size int, pcode int64) (p0 pack.Pack) {
	defer func() {
		ok, on := c06Kind(id)
		p0.SetOKIND(ok)
		p0.SetONODE(on)
	}()
	pad := ""
	if size > 0 {
		pad = strings.Repeat("z", size)
	}
	text := "id=" + strconv.Itoa(id) + ";" + pad
	switch kind {
	case 0:
		p := pack.NewTextPack()
		p.Pcode = pcode
		p.Oid = int32(id)
		p.Time = int64(id)
		p.AddTexts([]pack.TextRec{{Div: 1, Hash: int32(id), Text: text}})
		return p
	case 1:
		p := pack.NewLogSinkPack()
		p.Pcode = pcode
		p.Oid = int32(id)
		p.Time = int64(id)
		p.Category = "sim"
		p.Tags.PutString("id", strconv.Itoa(id))
		p.Content = text
		return p
	default:
		p := pack.NewTagCountPack()
		p.Pcode = pcode
		p.Oid = int32(id)
		p.Time = int64(id)
		p.Category = "sim"
		p.PutTag("id", text)
		p.Put("n", id)
		return p
	}
}

// c06Frame builds the expected wire frame from the protocol text, independently of golib's writer.
func c06Frame(body []byte, pcode int64, license string) []byte {
	var b bytes.Buffer
	b.WriteByte(10)
	b.WriteByte(0)
	binary.Write(&b, binary.BigEndian, pcode)
	binary.Write(&b, binary.BigEndian, whash.Hash64Str(license))
	binary.Write(&b, binary.BigEndian, int32(len(body)))
	b.Write(body)
	return b.Bytes()
}

func c06Body(faulty bool) func(rc *RunCtx) {
	return func(rc *RunCtx) {
		d := &c06Data{Faulty: faulty}
		rc.Data = d
		n := simnet.Reset()
		d.net = n
		addrA, addrB := "collector-a:6600", "collector-b:6600"
		// fault plan drawn up front from the fault stream
		type connFault struct {
			kind string
			off  int64
		}
		planByConn := map[int]connFault{}
		idleFault := map[int]string{} // after send #k (global count) the root injects a time-based fault
		nf := 0
		if faulty {
			nf = 1 + simrt.ChooseF(3)
		}
		for i := 0; i < nf; i++ {
			switch simrt.ChooseF(9) {
			case 0:
				c := simrt.ChooseF(3)
				planByConn[c] = connFault{"reset", int64(simrt.ChooseF(3000))}
				d.Plan = append(d.Plan, fmt.Sprintf("conn#%d reset at offset %d", c, planByConn[c].off))
			case 1:
				c := simrt.ChooseF(3)
				planByConn[c] = connFault{"close", int64(simrt.ChooseF(3000))}
				d.Plan = append(d.Plan, fmt.Sprintf("conn#%d peer close at offset %d", c, planByConn[c].off))
			case 2:
				c := simrt.ChooseF(3)
				planByConn[c] = connFault{"stall", int64(simrt.ChooseF(3000))}
				d.Plan = append(d.Plan, fmt.Sprintf("conn#%d reader stalls at offset %d", c, planByConn[c].off))
			case 3:
				k := simrt.ChooseF(6)
				idleFault[k] = "close_idle"
				d.Plan = append(d.Plan, fmt.Sprintf("peer closes the live connection while idle after %d sends", k))
			case 4:
				k := simrt.ChooseF(6)
				idleFault[k] = "reset_idle"
				d.Plan = append(d.Plan, fmt.Sprintf("peer resets the live connection while idle after %d sends", k))
			case 5:
				k := simrt.ChooseF(6)
				idleFault[k] = "servers_down"
				d.Plan = append(d.Plan, fmt.Sprintf("all servers refuse the next dials after %d sends", k))
			case 6:
				n.SetMode(addrA, simnet.Refusing)
				d.Plan = append(d.Plan, "first server refuses connections")
				simrt.Fault("first_server_down")
			case 7:
				k := simrt.ChooseF(6)
				idleFault[k] = "blackhole_a"
				d.Plan = append(d.Plan, fmt.Sprintf("first server black-holed and live connection reset after %d sends", k))
			case 8:
				k := simrt.ChooseF(8)
				idleFault[k] = "unblackhole_a"
				d.Plan = append(d.Plan, fmt.Sprintf("first server reachable again after %d sends", k))
			}
		}
		// a healthy but slow collector (no fault: nothing may be lost because of it): it pauses
		// reading at a seeded offset and catches up later, so that accepted frames sit in the
		// client's kernel for a while
		slowAt, slowFor := int64(-1), time.Duration(0)
		if !faulty && simrt.ChanceF(1, 3) {
			slowAt = int64(simrt.ChooseF(120000))
			slowFor = time.Duration(1+simrt.ChooseF(20000)) * time.Millisecond
			d.Plan = append(d.Plan, fmt.Sprintf("collector pauses reading at offset %d for %v", slowAt, slowFor))
		}
		accept := func(s *simnet.ServerSide) {
			s.OnData = d.onData
			if d.healed {
				return
			}
			if slowAt >= 0 && s.Ordinal == 0 {
				s.SlowAt, s.SlowFor = slowAt, slowFor
			}
			if f, ok := planByConn[s.Ordinal]; ok {
				switch f.kind {
				case "reset":
					s.ResetAt = f.off
				case "close":
					s.CloseAt = f.off
				case "stall":
					s.StallAt = f.off
				}
			}
		}
		n.Listen(addrA, accept)
		n.Listen(addrB, accept)
		n.OnDial = d.onDial
		if faulty && simrt.ChooseF(8) == 1 {
			n.SetMode(addrA, simnet.Refusing)
			simrt.Fault("first_server_down")
		}
		opts := []oneway.OneWayTcpClientOption{
			oneway.WithServers([]string{addrA, addrB}),
			oneway.WithLicense(c06DefaultLicense),
			oneway.WithPcode(4242),
		}
		d.Queue = simrt.Chance(1, 3)
		if d.Queue {
			d.QueueSize = []int{1000, 1, 2, 5}[simrt.Choose(4)]
			opts = append(opts, oneway.WithUseQueue(), oneway.WithQueueSize(int32(d.QueueSize)))
		}
		// the application may own the client's context (and cancel it itself before Destroy)
		var appCancel context.CancelFunc
		if simrt.ChanceF(1, 2) {
			ctx, cancel := context.WithCancel(context.Background())
			appCancel = cancel
			opts = append(opts, oneway.WithContext(ctx, cancel))
		}
		client := oneway.GetOneWayTcpClient(opts...)
		simrt.OnReset(func() { client.Destroy() })
		// manual drain: the application stops the background goroutine through its own context
		// and drains the queue itself with the public SendAndClear() (one batch, one flush)
		if d.Queue && appCancel != nil && simrt.ChanceF(1, 3) {
			d.ManualDrain = true
			simrt.Probe("manual_drain_send_and_clear")
			appCancel()
			simrt.Settle(int64(11 * time.Second)) // the background goroutine sees the cancel at its next wake-up
		}

		nTasks := 1 + simrt.Choose(4)
		nextID := 0
		type item struct {
			id, kind, size int
			pcode          int64
			license        string
			flush          bool
		}
		plans := make([][]item, nTasks)
		total := 0
		for t := 0; t < nTasks; t++ {
			k := 2 + simrt.Choose(5)
			for i := 0; i < k; i++ {
				nextID++
				it := item{id: nextID, kind: simrt.Choose(3), pcode: int64(4242 + simrt.Choose(3))}
				switch simrt.Choose(12) {
				case 0, 1, 2, 3, 4, 5:
					it.size = simrt.Choose(80)
				case 6, 7, 8:
					it.size = 200 + simrt.Choose(600)
				case 9, 10:
					it.size = 5000 + simrt.Choose(60000)
				case 11:
					if simrt.Chance(1, 6) {
						it.size = 2*1024*1024 + 100 + simrt.Choose(5000) // larger than the client's write buffer
					} else if simrt.Chance(1, 5) {
						// the frame length lands within a few bytes of the client's 2 MiB write buffer
						// (frame = 22-byte header + pack type + pack header + text field + padding)
						it.size = 2*1024*1024 - 80 + simrt.Choose(100)
					} else {
						it.size = 70000
					}
				}
				if simrt.Chance(1, 3) {
					it.license = "override-" + strconv.Itoa(simrt.Choose(3))
				}
				it.flush = simrt.Chance(1, 2)
				plans[t] = append(plans[t], it)
			}
			total += k
		}
		if d.ManualDrain && total > 1 && simrt.ChanceF(1, 3) {
			// a frame larger than the write buffer somewhere behind the head of the batch
			k := 1 + simrt.ChooseF(total-1)
			for t := range plans {
				if k < len(plans[t]) {
					plans[t][k].size = 2*1024*1024 + 100 + simrt.ChooseF(5000)
					break
				}
				k -= len(plans[t])
			}
		}
		simrt.SetStepsGuess(int64(total) * 120)
		pace := simrt.Choose(7) // 6 = around the background goroutine's 5 s wake-ups; 0 burst, 1 occasional pauses, 2 slow senders, 3 around whole seconds, 4 right when a dial starts, 5 long quiet periods
		sentCount := 0
		doSend := func(task int, it item, phase string) *c06Send {
			p := c06MakePack(it.id, it.kind, it.size, it.pcode)
			body := pack.ToBytesPack(p)
			lic := c06DefaultLicense
			if d.License2 != "" {
				lic = d.License2
			}
			var o []wnet.TcpClientOption
			if it.license != "" {
				lic = it.license
				o = append(o, wnet.WithLicense(it.license))
			}
			s := &c06Send{ID: it.id, Task: task, Kind: []string{"text", "logsink", "tagcount"}[it.kind], Size: len(body), License: lic,
				Pcode: it.pcode, Flush: it.flush, Phase: phase, Pad: it.size}
			s.frame = c06Frame(body, it.pcode, lic)
			if len(s.frame) > 2*1024*1024 {
				simrt.Probe("frame_larger_than_buffer")
			}
			d.addSend(s)
			simrt.SetOp(len(d.Sends))
			s.Call = simrt.Stamp()
			var err error
			if it.flush {
				err = client.SendFlush(p, true, o...)
			} else {
				err = client.Send(p, o...)
			}
			s.Return = simrt.Stamp()
			simrt.SetOp(0)
			if err != nil {
				s.Err = err.Error()
				if s.Err == "Enqueue Failed" {
					simrt.Probe("queue_refused_put")
				}
			}
			return s
		}
		var tasks []*simrt.Task
		for t := 0; t < nTasks; t++ {
			pl := plans[t]
			tid := t + 1
			tk := simrt.GoNamed("sender"+strconv.Itoa(tid), func() {
				for _, it := range pl {
					doSend(tid, it, "")
					sentCount++
					if f, ok := idleFault[sentCount]; ok && faulty {
						delete(idleFault, sentCount)
						switch f {
						case "close_idle":
							if len(n.Conns) > 0 {
								n.Conns[len(n.Conns)-1].Close("peer_close_idle")
							}
						case "reset_idle":
							if len(n.Conns) > 0 {
								n.Conns[len(n.Conns)-1].Reset("peer_reset_idle")
							}
						case "blackhole_a":
							n.SetMode(addrA, simnet.BlackHole)
							simrt.Fault("first_server_blackholed")
							if len(n.Conns) > 0 {
								n.Conns[len(n.Conns)-1].Reset("peer_reset_idle")
							}
						case "unblackhole_a":
							n.SetMode(addrA, simnet.Up)
						case "servers_down":
							n.DialFail = 1 + simrt.ChooseF(4)
							simrt.Fault("all_servers_down")
							if len(n.Conns) > 0 {
								n.Conns[len(n.Conns)-1].Reset("peer_reset_idle")
							}
						}
					}
					switch pace {
					case 1:
						if simrt.Chance(1, 4) {
							simrt.Sleep(time.Duration(1+simrt.Choose(3000)) * time.Millisecond)
						}
					case 3:
						// sends timed around multiples of a second (background wake-ups of periodic
						// goroutines tend to sit there)
						el := simrt.Elapsed()
						next := (el/int64(time.Second) + 1) * int64(time.Second)
						simrt.Sleep(time.Duration(next-el) + time.Duration(simrt.Choose(400)-100)*time.Microsecond)
					case 4:
						// park until some task starts a connection attempt (or a few seconds pass), so
						// that the next send overlaps a dial in flight
						simrt.SleepOrWake(time.Duration(2000+simrt.Choose(7000))*time.Millisecond, &d.dialWait)
					case 6:
						// sends timed around multiples of five seconds: the client's background goroutine
						// wakes (and, without a connection, re-dials) on that grid
						el := simrt.Elapsed()
						next := (el/int64(5*time.Second) + 1) * int64(5*time.Second)
						simrt.Sleep(time.Duration(next-el) + time.Duration(simrt.Choose(16000)-2000)*time.Microsecond)
					case 5:
						// quiet periods around and beyond the client's own time-outs (60 s)
						if simrt.Chance(1, 3) {
							simrt.Sleep(time.Duration(55+simrt.Choose(80)) * time.Second)
						}
					case 2:
						// slow senders: sends spread over many seconds, overlapping the background
						// goroutine's 5 s wake-ups
						simrt.Sleep(time.Duration(800+simrt.Choose(1800)) * time.Millisecond)
					}
				}
			})
			tasks = append(tasks, tk)
		}
		for _, tk := range tasks {
			simrt.Join(tk)
		}
		if d.ManualDrain {
			simrt.Note("application calls SendAndClear()")
			// (on a faulty network a drain may fail part-way; the application tries again)
			for try := 0; try < 3; try++ {
				err := client.SendAndClear()
				if err == nil {
					break
				}
				d.DrainErr = err.Error()
				simrt.Sleep(200 * time.Millisecond)
			}
		}
		if !faulty && !d.Queue && simrt.ChanceF(1, 3) {
			// the application closes the client once its senders are done (direct mode: nothing
			// else uses the connection); everything already accepted must still arrive
			simrt.Note("application calls Close()")
			simrt.Probe("client_closed_by_application")
			client.Close()
		}
		// let the queue drain / timers run
		simrt.Settle(int64(40 * time.Second))
		if !faulty && !d.ManualDrain && simrt.ChanceF(1, 6) {
			// second life: the application destroys the client and asks for a new one; the sends
			// of the recovery phase go through it
			simrt.Note("application calls Destroy() and GetOneWayTcpClient() again")
			simrt.Probe("client_destroyed_and_recreated")
			if appCancel != nil {
				appCancel() // the application stops its own context first
			}
			client.Destroy()
			simrt.Settle(int64(6 * time.Second)) // the old background goroutine sees the cancel at its next wake-up
			// the new client gets options of its own: another default license (and a fresh
			// context if the application owns it)
			d.License2 = "second-life-license"
			opts2 := []oneway.OneWayTcpClientOption{oneway.WithServers([]string{addrA, addrB}), oneway.WithLicense(d.License2), oneway.WithPcode(4242)}
			if d.Queue {
				opts2 = append(opts2, oneway.WithUseQueue(), oneway.WithQueueSize(int32(d.QueueSize)))
			}
			if appCancel != nil {
				ctx2, cancel2 := context.WithCancel(context.Background())
				opts2 = append(opts2, oneway.WithContext(ctx2, cancel2))
			}
			client = oneway.GetOneWayTcpClient(opts2...)
		}
		// ---- heal: faults stop, every server is up ----
		d.healed = true
		n.DialFail = 0
		n.SetMode(addrA, simnet.Up)
		n.SetMode(addrB, simnet.Up)
		if faulty && simrt.ChanceF(1, 3) {
			// only one of the two configured servers comes back; the other one refuses from now
			// on, and connections to it that are still open end. Whichever server the client
			// used last, it must find the one that is up.
			down, downName := addrA, "A"
			if simrt.ChanceF(1, 2) {
				down, downName = addrB, "B"
			}
			n.SetMode(down, simnet.Refusing)
			d.Plan = append(d.Plan, "after the heal server "+downName+" stays down")
			simrt.Probe("heal_leaves_one_server_down")
			for _, c := range n.Conns {
				if c.Addr == down && !c.PeerClosed && !c.PeerReset && !c.ClientClosed {
					c.Reset("peer_reset_idle")
				}
			}
		}
		for _, c := range n.Conns {
			c.ResetAt, c.CloseAt, c.SlowAt = -1, -1, -1
			c.Unstall()
		}
		d.HealStamp = simrt.Stamp()
		simrt.Note("HEAL: all faults cleared")
		// recovery phase
		if !d.Queue {
			for i := 0; i < c06RecoverySends; i++ {
				nextID++
				doSend(0, item{id: nextID, kind: simrt.Choose(3), size: 20, pcode: 4242, flush: true}, "recovery")
			}
		} else {
			// a dial that was already in flight to a black-holed server only returns after the
			// client's 60 s connect timeout, then comes the 5 s back-off: wait those out
			simrt.Settle(int64(70 * time.Second))
			for i := 0; i < c06RecoverySends; i++ {
				nextID++
				doSend(0, item{id: nextID, kind: 0, size: 20, pcode: 4242, flush: true}, "recovery")
				if d.ManualDrain {
					client.SendAndClear()
				}
				simrt.Settle(int64(8 * time.Second))
			}
			simrt.Settle(int64(30 * time.Second))
		}
		simrt.WaitIdle()
		if len(n.Conns) > 1 {
			simrt.Probe("reconnect_happened")
		}
		for _, c := range n.Conns {
			d.Conns = append(d.Conns, fmt.Sprintf("conn#%d %s recv=%d lost=%d faults=%v peerClosed=%v peerReset=%v clientClosed=%v", c.Ordinal, c.Addr, len(c.Recv), len(c.Lost), c.FaultKinds, c.PeerClosed, c.PeerReset, c.ClientClosed))
		}
	}
}

type c06Frm struct {
	conn, start, end int
	id               int
	arrival          int64
}

func c06After(rc *RunCtx, res *simrt.Result) {
	d := rc.Data.(*c06Data)
	rc.Sample = d
	byFrame := map[string]*c06Send{}
	for _, s := range d.Sends {
		byFrame[string(s.frame)] = s
	}
	viol := func(oracle, msg string) {
		mode := "direct"
		if d.Queue {
			mode = "queue"
		}
		rc.Violate("C06", oracle, oracle+":"+mode, msg+" | plan="+strings.Join(d.Plan, "; ")+" | conns="+strings.Join(d.Conns, " / "))
	}
	var frames []c06Frm
	tails := map[int][]byte{}
	received := map[int][]c06Frm{}
	var h uint64 = 1469598103934665603
	for _, c := range d.net.Conns {
		b := c.Recv
		pos := 0
		for pos < len(b) {
			if len(b)-pos < 22 {
				break
			}
			if b[pos] != 10 || b[pos+1] != 0 {
				viol("O1-framing", fmt.Sprintf("conn#%d: bytes at offset %d do not start a frame (got % x)", c.Ordinal, pos, b[pos:min(pos+8, len(b))]))
				pos = len(b)
				break
			}
			ln := int(int32(binary.BigEndian.Uint32(b[pos+18 : pos+22])))
			if ln < 0 || ln > 64*1024*1024 {
				viol("O1-framing", fmt.Sprintf("conn#%d: absurd frame length %d at offset %d", c.Ordinal, ln, pos))
				pos = len(b)
				break
			}
			if len(b)-pos < 22+ln {
				break
			}
			fr := b[pos : pos+22+ln]
			s := byFrame[string(fr)]
			if s == nil {
				// O2: does the body belong to a sent pack with a different header?
				msg := fmt.Sprintf("conn#%d: complete frame at offset %d (len %d) equals no sent pack's expected frame", c.Ordinal, pos, ln)
				for _, x := range d.Sends {
					if bytes.Equal(x.frame[22:], fr[22:]) {
						msg = fmt.Sprintf("conn#%d: frame for pack id %d carries header % x, expected % x (pcode %d, license %q)", c.Ordinal, x.ID, fr[:22], x.frame[:22], x.Pcode, x.License)
					}
				}
				viol("O2-content", msg)
			} else {
				// the frame "decodes to exactly the pack that was sent": header fields of the
				// decoded pack against what was put into the sent one (the expected frame above
				// comes from golib's own encoder, which could drop a field on both sides)
				func() {
					defer func() {
						if r := recover(); r != nil {
							viol("O2-content", fmt.Sprintf("conn#%d: frame of pack id %d does not decode: %v", c.Ordinal, s.ID, r))
						}
					}()
					q := pack.ToPack(fr[22:])
					ok, on := c06Kind(s.ID)
					// ... and its content, by kind, against a pack built afresh from the same recipe
					want := c06MakePack(s.ID, map[string]int{"text": 0, "logsink": 1, "tagcount": 2}[s.Kind], s.Pad, s.Pcode)
					mv := func(m *value.MapValue) string {
						return string(value.WriteValue(wio.NewDataOutputX(), m).ToByteArray())
					}
					bad := ""
					switch w := want.(type) {
					case *pack.TextPack:
						g, ok := q.(*pack.TextPack)
						recs := func(p *pack.TextPack) string {
							return fmt.Sprintf("%v", reflect.ValueOf(p).Elem().FieldByName("records"))
						}
						if !ok || recs(g) != recs(w) {
							bad = "text records differ"
						}
					case *pack.LogSinkPack:
						g, ok := q.(*pack.LogSinkPack)
						if !ok || g.Category != w.Category || g.Content != w.Content || g.Line != w.Line || mv(g.Tags) != mv(w.Tags) || mv(g.Fields) != mv(w.Fields) {
							bad = "log-sink fields differ"
						}
					case *pack.TagCountPack:
						g, ok := q.(*pack.TagCountPack)
						if !ok || g.Category != w.Category || mv(g.Tags) != mv(w.Tags) || mv(g.Data) != mv(w.Data) {
							bad = "tag-count fields differ"
						}
					}
					if bad != "" {
						viol("O2-content", fmt.Sprintf("conn#%d: frame of pack id %d (%s) does not decode to the pack that was sent: %s", c.Ordinal, s.ID, s.Kind, bad))
					}
					fld := func(n string) int64 { return reflect.ValueOf(q).Elem().FieldByName(n).Int() }
					if q == nil || fld("Pcode") != s.Pcode || fld("Oid") != int64(s.ID) || fld("Okind") != int64(ok) || fld("Onode") != int64(on) || fld("Time") != int64(s.ID) {
						viol("O2-content", fmt.Sprintf("conn#%d: frame of pack id %d decodes to pcode=%d oid=%d okind=%d onode=%d time=%d, the pack sent had pcode=%d oid=%d okind=%d onode=%d time=%d", c.Ordinal, s.ID, fld("Pcode"), fld("Oid"), fld("Okind"), fld("Onode"), fld("Time"), s.Pcode, s.ID, ok, on, s.ID))
					}
				}()
				f := c06Frm{conn: c.Ordinal, start: pos, end: pos + 22 + ln, id: s.ID}
				for _, a := range d.arrivals {
					if a.conn == c.Ordinal && a.upto >= f.end {
						f.arrival = a.stamp
						break
					}
				}
				frames = append(frames, f)
				received[s.ID] = append(received[s.ID], f)
				h = (h ^ uint64(s.ID)) * 1099511628211
			}
			pos += 22 + ln
		}
		if pos < len(b) {
			// trailing strict prefix of a frame: only on a connection that suffered an injected fault
			tailBytes := b[pos:]
			tails[c.Ordinal] = tailBytes
			if !c.Faulted {
				viol("O1-framing", fmt.Sprintf("conn#%d: %d trailing bytes form an incomplete frame although no fault was injected on this connection", c.Ordinal, len(tailBytes)))
			} else {
				ok := false
				for _, s := range d.Sends {
					if len(tailBytes) < len(s.frame) && bytes.HasPrefix(s.frame, tailBytes) {
						ok = true
						rc.Probe("fault_mid_frame")
					}
				}
				if !ok {
					viol("O1-framing", fmt.Sprintf("conn#%d: trailing %d bytes are not a prefix of any sent frame", c.Ordinal, len(tailBytes)))
				}
			}
		}
	}
	for _, s := range d.Sends {
		h = (h ^ uint64(len(s.Err))) * 1099511628211
	}
	rc.OutcomeHash = h
	// O3 at-most-once
	var recvIDs []int
	for id := range received {
		recvIDs = append(recvIDs, id)
	}
	sort.Ints(recvIDs)
	for _, id := range recvIDs {
		fs := received[id]
		if len(fs) > 1 {
			viol("O3-duplicate", fmt.Sprintf("pack id %d arrived in %d complete frames", id, len(fs)))
		}
	}
	// O4 order: A returned before B was invoked, both arrived => A arrived first
	for _, a := range d.Sends {
		fa := received[a.ID]
		if len(fa) == 0 || a.Return == 0 {
			continue
		}
		for _, b := range d.Sends {
			fb := received[b.ID]
			if len(fb) == 0 || a == b || !(a.Return < b.Call) {
				continue
			}
			// in order if: same connection and earlier in the byte stream; or an earlier connection
			// (data parked in a stalled connection's buffers may legitimately surface late); or it
			// simply reached the collector first
			if !(fa[0].arrival < fb[0].arrival) && !(fa[0].conn == fb[0].conn && fa[0].start < fb[0].start) && !(fa[0].conn < fb[0].conn) {
				viol("O4-order", fmt.Sprintf("send id %d returned (stamp %d) before send id %d was invoked (stamp %d) but arrived after it (conn#%d@%d vs conn#%d@%d)", a.ID, a.Return, b.ID, b.Call, fa[0].conn, fa[0].start, fb[0].conn, fb[0].start))
			}
		}
	}
	explained := func(s *c06Send) bool {
		for _, c := range d.net.Conns {
			if bytes.Contains(c.Lost, s.frame) {
				return true
			}
			if !c.Faulted {
				continue
			}
			t := tails[c.Ordinal]
			if len(t) > 0 && len(t) < len(s.frame) && bytes.HasPrefix(s.frame, t) {
				return true // cut mid-frame by the fault
			}
			if len(c.Lost) > 0 {
				// frame split between the delivered tail and the write-after-FIN slot
				if len(t) < len(s.frame) && bytes.HasPrefix(s.frame, t) && bytes.HasPrefix(c.Lost, s.frame[len(t):]) {
					return true
				}
			}
		}
		return false
	}
	// O5 / O6
	for _, s := range d.Sends {
		got := len(received[s.ID]) > 0
		if s.Return == 0 {
			continue
		}
		if s.Err == "" && !got {
			if !d.Faulty {
				viol("O5-silent-loss", fmt.Sprintf("send id %d (%s, %d bytes) returned nil on a healthy network but never arrived", s.ID, s.Kind, s.Size))
			} else if !d.Queue {
				if !explained(s) {
					viol("O5-silent-loss", fmt.Sprintf("send id %d (%s, %d bytes, phase %q) returned nil, never arrived, and no injected fault accounts for it: its bytes reached no connection", s.ID, s.Kind, s.Size, s.Phase))
				}
			}
		}
		if s.Err != "" && got && !d.Queue {
			viol("O6-error-honesty", fmt.Sprintf("send id %d returned error %q but its complete frame is on the wire", s.ID, s.Err))
		}
	}
	// O7 bounded recovery (direct mode): within 6 sends after the heal one returns nil and is received
	{
		ok := false
		n := 0
		for _, s := range d.Sends {
			if s.Phase == "recovery" {
				n++
				if s.Err == "" && len(received[s.ID]) > 0 {
					ok = true
					if d.Faulty {
						rc.Probe("recovered_after_heal")
					}
				}
			}
		}
		if n > 0 && !ok {
			var errs []string
			for _, s := range d.Sends {
				if s.Phase == "recovery" {
					errs = append(errs, fmt.Sprintf("id %d err=%q arrived=%v", s.ID, s.Err, len(received[s.ID]) > 0))
				}
			}
			viol("O7-recovery", "after all faults were cleared none of 6 further sends both returned nil and arrived: "+strings.Join(errs, "; "))
		}
	}
}
