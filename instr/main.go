// instr: source-level instrumenter for the scratch copy of golib.
//
//	instr -root <scratch golib dir> -pkgs util/queue,util/list,...
//
// For every non-test file of the listed packages (text edits at AST offsets, so line
// numbers are preserved):
//   - a yield `zzsimrt.Y(site)` before every statement of every statement list and at
//     the top of every loop body;
//   - imports of sync/time/os/io/ioutil/net/log/properties redirected to shims (only
//     those whose shim directory exists under <root>/zzverif);
//   - `go f()` -> zzsimrt.Go(f)   (callee/receiver evaluated at the go statement);
//   - `for k, v := range <map>` -> iteration over zzsimrt.MapKeys(m) (seeded order).
//
// Writes <root>/zzverif/simrt/sites_gen.go (site table) and prints a JSON summary.
// Anything it cannot handle is a hard error (exit 2): the check must not run on
// half-instrumented code.
package main

import (
	"encoding/json"
	"flag"
	"fmt"
	"go/ast"
	"go/token"
	"go/types"
	"os"
	"path/filepath"
	"sort"
	"strconv"
	"strings"

	"golang.org/x/tools/go/packages"
)

const modPath = "github.com/whatap/golib"

var shimFor = map[string][2]string{ // import path -> {shim dir, default name}
	"sync":                             {"simsync", "sync"},
	"time":                             {"simtime", "time"},
	"os":                               {"simos", "os"},
	"io/ioutil":                        {"simioutil", "ioutil"},
	"path/filepath":                    {"simfilepath", "filepath"},
	"net":                              {"simnet", "net"},
	"log":                              {"simlog", "log"},
	"github.com/magiconair/properties": {"simprops", "properties"},
}

type edit struct {
	start, end int
	text       string
	seq        int
}

type summary struct {
	Files             int      `json:"files"`
	Yields            int      `json:"yields"`
	GoStmts           int      `json:"go_stmts"`
	MapRanges         int      `json:"map_ranges"`
	UnseededMapRanges []string `json:"unseeded_map_ranges"`
	ImportsRewritten  int      `json:"imports_rewritten"`
	ChannelOps        []string `json:"blocking_channel_ops"`
}

var sites []string
var sum summary
var coarsePkgs = map[string]bool{}

func fatal(f string, a ...interface{}) {
	fmt.Fprintf(os.Stderr, "instr: "+f+"\n", a...)
	os.Exit(2)
}

func main() {
	root := flag.String("root", "", "scratch golib directory")
	pkgs := flag.String("pkgs", "", "comma separated package dirs relative to root")
	coarse := flag.String("coarse", "", "comma separated package dirs instrumented coarsely: no yields inside loop bodies (byte-crunching helpers)")
	flag.Parse()
	if *root == "" || *pkgs == "" {
		fatal("usage")
	}
	var patterns []string
	for _, p := range strings.Split(*pkgs, ",") {
		patterns = append(patterns, modPath+"/"+strings.TrimSpace(p))
	}
	for _, p := range strings.Split(*coarse, ",") {
		if p = strings.TrimSpace(p); p != "" {
			patterns = append(patterns, modPath+"/"+p)
			coarsePkgs[modPath+"/"+p] = true
		}
	}
	cfg := &packages.Config{
		Mode: packages.NeedName | packages.NeedFiles | packages.NeedSyntax | packages.NeedTypes |
			packages.NeedTypesInfo | packages.NeedImports | packages.NeedDeps | packages.NeedCompiledGoFiles,
		Dir:        *root,
		Tests:      false,
		BuildFlags: []string{"-tags=verif"},
	}
	loaded, err := packages.Load(cfg, patterns...)
	if err != nil {
		fatal("load: %v", err)
	}
	if packages.PrintErrors(loaded) > 0 {
		fatal("packages have errors")
	}
	sort.Slice(loaded, func(i, j int) bool { return loaded[i].PkgPath < loaded[j].PkgPath })
	type out struct {
		path string
		data []byte
	}
	var outs []out
	for _, p := range loaded {
		for i, f := range p.Syntax {
			path := p.CompiledGoFiles[i]
			if strings.HasSuffix(path, "_test.go") {
				continue
			}
			src, err := os.ReadFile(path)
			if err != nil {
				fatal("%v", err)
			}
			rel, _ := filepath.Rel(*root, path)
			data := instrumentFile(p, f, src, rel, *root)
			outs = append(outs, out{path, data})
			sum.Files++
		}
	}
	for _, o := range outs {
		if err := os.WriteFile(o.path, o.data, 0644); err != nil {
			fatal("%v", err)
		}
	}
	// site table
	var sb strings.Builder
	sb.WriteString("package simrt\n\nfunc init() {\n\tSiteTable = []string{\n")
	for _, s := range sites {
		sb.WriteString("\t\t" + strconv.Quote(s) + ",\n")
	}
	sb.WriteString("\t}\n}\n")
	if err := os.WriteFile(filepath.Join(*root, "zzverif", "simrt", "sites_gen.go"), []byte(sb.String()), 0644); err != nil {
		fatal("%v", err)
	}
	js, _ := json.Marshal(sum)
	fmt.Println(string(js))
}

func instrumentFile(p *packages.Package, f *ast.File, src []byte, rel, root string) []byte {
	fset := p.Fset
	off := func(pos token.Pos) int { return fset.Position(pos).Offset }
	var edits []edit
	seq := 0
	add := func(s, e int, t string) {
		seq++
		edits = append(edits, edit{s, e, t, seq})
	}
	site := func(pos token.Pos) int {
		ps := fset.Position(pos)
		sites = append(sites, rel+":"+strconv.Itoa(ps.Line))
		return len(sites) - 1
	}
	yieldText := func(pos token.Pos) string {
		sum.Yields++
		return "zzsimrt.Y(" + strconv.Itoa(site(pos)) + "); "
	}

	// imports
	for _, im := range f.Imports {
		ipath, _ := strconv.Unquote(im.Path.Value)
		sh, ok := shimFor[ipath]
		if !ok {
			continue
		}
		if coarsePkgs[p.PkgPath] && ipath != "sync" && ipath != "time" {
			continue // helper packages: only the scheduler-relevant imports are redirected
		}
		if _, err := os.Stat(filepath.Join(root, "zzverif", sh[0])); err != nil {
			continue // shim not present: leave the real package
		}
		newPath := strconv.Quote(modPath + "/zzverif/" + sh[0])
		if im.Name == nil {
			add(off(im.Path.Pos()), off(im.Path.End()), sh[1]+" "+newPath)
		} else {
			add(off(im.Path.Pos()), off(im.Path.End()), newPath)
		}
		sum.ImportsRewritten++
	}
	// simrt import on the package clause line
	add(off(f.Name.End()), off(f.Name.End()), "; import zzsimrt \""+modPath+"/zzverif/simrt\"")
	add(len(src), len(src), "\nvar _ = zzsimrt.Y\n")

	qual := func(other *types.Package) string {
		if other == p.Types {
			return ""
		}
		return "\x00" + other.Path() // marks "not printable here"
	}
	// importName: under which name a package is visible in this file (after shim rewriting
	// the names stay the same)
	importName := map[string]string{}
	for _, im := range f.Imports {
		ipath, _ := strconv.Unquote(im.Path.Value)
		if im.Name != nil {
			importName[ipath] = im.Name.Name
		} else if pk := p.Imports[ipath]; pk != nil {
			importName[ipath] = pk.Name
		}
	}
	qualFile := func(other *types.Package) string {
		if other == p.Types {
			return ""
		}
		if n, ok := importName[other.Path()]; ok && n != "_" && n != "." {
			return n
		}
		return "\x00" + other.Path()
	}
	typeStr := func(t types.Type, pos token.Pos) string {
		ts := types.TypeString(t, qualFile)
		if strings.Contains(ts, "\x00") {
			fatal("%s:%d: cannot name type %s in this file (channel rewrite)", rel, fset.Position(pos).Line, t.String())
		}
		return ts
	}
	chanElem := func(e ast.Expr) types.Type {
		tv, ok := p.TypesInfo.Types[e]
		if !ok {
			fatal("%s:%d: no type for channel expression", rel, fset.Position(e.Pos()).Line)
		}
		ch, ok := tv.Type.Underlying().(*types.Chan)
		if !ok {
			fatal("%s:%d: not a channel", rel, fset.Position(e.Pos()).Line)
		}
		return ch.Elem()
	}
	srcOf := func(n ast.Node) string { return string(src[off(n.Pos()):off(n.End())]) }
	// channel operations that belong to a select's communication clause (left intact) and
	// receives that feed a two-value assignment
	inComm := map[ast.Node]bool{}
	twoValue := map[ast.Node]bool{}
	ast.Inspect(f, func(n ast.Node) bool {
		switch x := n.(type) {
		case *ast.CommClause:
			if x.Comm != nil {
				inComm[x.Comm] = true
				switch c := x.Comm.(type) {
				case *ast.ExprStmt:
					inComm[c.X] = true
				case *ast.AssignStmt:
					if len(c.Rhs) == 1 {
						inComm[c.Rhs[0]] = true
					}
				}
			}
		case *ast.AssignStmt:
			if len(x.Lhs) == 2 && len(x.Rhs) == 1 {
				if u, ok := x.Rhs[0].(*ast.UnaryExpr); ok && u.Op == token.ARROW {
					twoValue[u] = true
				}
			}
		case *ast.ValueSpec:
			if len(x.Names) == 2 && len(x.Values) == 1 {
				if u, ok := x.Values[0].(*ast.UnaryExpr); ok && u.Op == token.ARROW {
					twoValue[u] = true
				}
			}
		}
		return true
	})
	recvClosure := func(chExpr ast.Expr, two bool, pos token.Pos) string {
		et := typeStr(chanElem(chExpr), pos)
		st := strconv.Itoa(site(pos))
		if two {
			return "func() (" + et + ", bool) { zzc := " + srcOf(chExpr) + "; for { select { case zzv, zzok := <-zzc: zzsimrt.ChanDone(); return zzv, zzok; default: zzsimrt.ChanWait(" + st + ") } } }()"
		}
		return "func() " + et + " { zzc := " + srcOf(chExpr) + "; for { select { case zzv := <-zzc: zzsimrt.ChanDone(); return zzv; default: zzsimrt.ChanWait(" + st + ") } } }()"
	}
	labelN := 0

	skipYields := false
	funcLitSaved := map[ast.Node]int{}
	doList := func(list []ast.Stmt) {
		if skipYields {
			return
		}
		for _, st := range list {
			switch st.(type) {
			case *ast.CaseClause, *ast.CommClause:
				continue // body of a switch/select: clauses are not statements
			}
			add(off(st.Pos()), off(st.Pos()), yieldText(st.Pos()))
		}
	}

	isCoarse := coarsePkgs[p.PkgPath]
	var stack []ast.Node
	loopDepth := 0
	ast.Inspect(f, func(n ast.Node) bool {
		if n == nil {
			top := stack[len(stack)-1]
			stack = stack[:len(stack)-1]
			switch top.(type) {
			case *ast.ForStmt, *ast.RangeStmt:
				loopDepth--
			case *ast.FuncLit:
				loopDepth = funcLitSaved[top]
			}
			return true
		}
		stack = append(stack, n)
		switch n.(type) {
		case *ast.ForStmt, *ast.RangeStmt:
			loopDepth++
		case *ast.FuncLit:
			funcLitSaved[n] = loopDepth
			loopDepth = 0
		}
		skipYields = isCoarse && loopDepth > 0
		switch x := n.(type) {
		case *ast.BlockStmt:
			doList(x.List)
		case *ast.CaseClause:
			doList(x.Body)
		case *ast.CommClause:
			doList(x.Body)
			if x.Comm != nil {
				// a select case with a channel op that is not guarded by default blocks
				// the real goroutine; recorded, decided below at the SelectStmt
			}
		case *ast.SelectStmt:
			hasDefault := false
			for _, c := range x.Body.List {
				if cc, ok := c.(*ast.CommClause); ok && cc.Comm == nil {
					hasDefault = true
				}
			}
			for _, c := range x.Body.List {
				if cc, ok := c.(*ast.CommClause); ok && cc.Comm != nil {
					// a communication happened: wake tasks parked on channel operations
					add(off(cc.Colon)+1, off(cc.Colon)+1, " zzsimrt.ChanDone();")
				}
			}
			if !hasDefault {
				// blocking select -> labelled non-blocking select that parks the task in the
				// simulator when no case is ready and retries:  zzL: select { ...; default: ChanWait; goto zzL }
				sum.ChannelOps = append(sum.ChannelOps, rel+":"+strconv.Itoa(fset.Position(x.Pos()).Line)+" blocking select (rewritten)")
				labelN++
				lbl := "zzsel" + strconv.Itoa(labelN)
				add(off(x.Select), off(x.Select), lbl+": ")
				add(off(x.Body.Rbrace), off(x.Body.Rbrace), "default: zzsimrt.ChanWait("+strconv.Itoa(site(x.Pos()))+"); goto "+lbl+"; ")
			}
		case *ast.SendStmt:
			if inComm[x] {
				return true
			}
			sum.ChannelOps = append(sum.ChannelOps, rel+":"+strconv.Itoa(fset.Position(x.Pos()).Line)+" channel send (rewritten)")
			st := strconv.Itoa(site(x.Pos()))
			add(off(x.Pos()), off(x.End()), "{ zzc := "+srcOf(x.Chan)+"; zzv := "+srcOf(x.Value)+"; for zzs := false; !zzs; { select { case zzc <- zzv: zzs = true; zzsimrt.ChanDone(); default: zzsimrt.ChanWait("+st+") } } }")
			return false
		case *ast.UnaryExpr:
			if x.Op != token.ARROW || inComm[x] {
				return true
			}
			sum.ChannelOps = append(sum.ChannelOps, rel+":"+strconv.Itoa(fset.Position(x.Pos()).Line)+" channel receive (rewritten)")
			add(off(x.Pos()), off(x.End()), recvClosure(x.X, twoValue[x], x.Pos()))
			return false
		case *ast.ExprStmt:
			if call, ok := x.X.(*ast.CallExpr); ok {
				if id, ok := call.Fun.(*ast.Ident); ok && id.Name == "close" && len(call.Args) == 1 {
					if _, isBuiltin := p.TypesInfo.Uses[id].(*types.Builtin); isBuiltin {
						add(off(x.End()), off(x.End()), "; zzsimrt.ChanDone()")
					}
				}
			}
		case *ast.ForStmt:
			if len(x.Body.List) == 0 {
				add(off(x.Body.Lbrace)+1, off(x.Body.Lbrace)+1, " "+yieldText(x.Body.Lbrace))
			}
		case *ast.GoStmt:
			sum.GoStmts++
			call := x.Call
			if len(call.Args) != 0 {
				fatal("%s:%d: go statement with arguments is not supported by the instrumenter", rel, fset.Position(x.Pos()).Line)
			}
			// go F()  ->  zzsimrt.Go(F)
			add(off(x.Go), off(call.Fun.Pos()), "zzsimrt.Go(")
			add(off(call.Lparen), off(call.Rparen)+1, ")")
		case *ast.RangeStmt:
			tv, ok := p.TypesInfo.Types[x.X]
			if !ok {
				return true
			}
			mt, ok := tv.Type.Underlying().(*types.Map)
			if !ok {
				if ch, isChan := tv.Type.Underlying().(*types.Chan); isChan {
					sum.ChannelOps = append(sum.ChannelOps, rel+":"+strconv.Itoa(fset.Position(x.Pos()).Line)+" range over channel (rewritten)")
					_ = ch
					vname := "_"
					if id, ok := x.Key.(*ast.Ident); ok {
						vname = id.Name
					} else if x.Key != nil {
						fatal("%s:%d: range-over-channel variable is not an identifier", rel, fset.Position(x.Pos()).Line)
					}
					asg := ":="
					if x.Tok == token.ASSIGN {
						asg = "="
					}
					hdr := "for { "
					if vname == "_" {
						hdr += "_, zzok := " + recvClosure(x.X, true, x.Pos()) + "; if !zzok { break }; "
					} else if asg == ":=" {
						hdr += vname + ", zzok := " + recvClosure(x.X, true, x.Pos()) + "; if !zzok { break }; _ = " + vname + "; "
					} else {
						hdr += "var zzok bool; " + vname + ", zzok = " + recvClosure(x.X, true, x.Pos()) + "; if !zzok { break }; "
					}
					add(off(x.For), off(x.Body.Lbrace)+1, hdr)
					return true
				}
				if len(x.Body.List) == 0 {
					add(off(x.Body.Lbrace)+1, off(x.Body.Lbrace)+1, " "+yieldText(x.Body.Lbrace))
				}
				return true
			}
			line := rel + ":" + strconv.Itoa(fset.Position(x.Pos()).Line)
			kt := types.TypeString(mt.Key(), qual)
			if strings.Contains(kt, "\x00") {
				sum.UnseededMapRanges = append(sum.UnseededMapRanges, line+" (key type "+mt.Key().String()+")")
				return true
			}
			sum.MapRanges++
			mexpr := string(src[off(x.X.Pos()):off(x.X.End())])
			kname, vname := "zzkk", "_"
			if id, ok := x.Key.(*ast.Ident); ok && id.Name != "_" {
				kname = id.Name
			} else if x.Key != nil {
				if _, isId := x.Key.(*ast.Ident); !isId {
					fatal("%s: range key is not an identifier", line)
				}
			}
			if x.Value != nil {
				if id, ok := x.Value.(*ast.Ident); ok {
					vname = id.Name
				} else {
					fatal("%s: range value is not an identifier", line)
				}
			}
			var hdr string
			if x.Tok == token.ASSIGN {
				hdr = "{ zzm := " + mexpr + "; for _, zzk := range zzsimrt.MapKeys(zzm) { "
				if kname == "zzkk" {
					hdr += "zzkk := zzk.(" + kt + "); "
				} else {
					hdr += kname + " = zzk.(" + kt + "); "
				}
				hdr += "var zzok bool; " + vname + ", zzok = zzm[" + kname + "]; if !zzok { continue }; "
			} else {
				hdr = "{ zzm := " + mexpr + "; for _, zzk := range zzsimrt.MapKeys(zzm) { " +
					kname + " := zzk.(" + kt + "); " + vname + ", zzok := zzm[" + kname + "]; if !zzok { continue }; _ = " + kname + "; "
				if vname != "_" {
					hdr += "_ = " + vname + "; "
				}
			}
			add(off(x.For), off(x.Body.Lbrace)+1, hdr)
			add(off(x.End()), off(x.End()), " }")
		case *ast.LabeledStmt:
			if rs, ok := x.Stmt.(*ast.RangeStmt); ok {
				if tv, ok := p.TypesInfo.Types[rs.X]; ok {
					if _, isMap := tv.Type.Underlying().(*types.Map); isMap {
						fatal("%s:%d: labeled range over map is not supported", rel, fset.Position(x.Pos()).Line)
					}
				}
			}
		}
		return true
	})

	// apply edits: descending start; at equal start the replacement (end>start) is applied
	// first so that a pure insertion at the same offset ends up before it.
	sort.SliceStable(edits, func(i, j int) bool {
		if edits[i].start != edits[j].start {
			return edits[i].start > edits[j].start
		}
		ii, jj := edits[i].end == edits[i].start, edits[j].end == edits[j].start
		if ii != jj {
			return !ii
		}
		return edits[i].seq > edits[j].seq
	})
	out := append([]byte(nil), src...)
	lastStart := len(out) + 1
	for _, e := range edits {
		if e.end > lastStart {
			fatal("%s: overlapping edits at offset %d", rel, e.start)
		}
		out = append(out[:e.start], append([]byte(e.text), out[e.end:]...)...)
		lastStart = e.start
	}
	return out
}
