#!/bin/sh
# Re-run every kept seeded change against the current checks (quick tier) and tabulate exit codes.
OUT=/verif/dev/seeds_regress.log; : > $OUT
for d in /verif/seeded/*/; do
  id=$(basename $d); prop=$(python3 -c "import json;print(json.load(open('$d/meta.json'))['property'])")
  W=/tmp/sreg-$id; git -C /repo worktree prune; git -C /repo worktree add -q --detach $W HEAD || continue
  if (cd $W && git apply $d/patch.diff); then
    start=$(date +%s)
    res=$(cd /verif && VERIF_REPO=$W bin/check $prop quick 2>&1); rc=$?
    sig=$(echo "$res" | grep -m1 "oracle=" | sed 's/^ *//' | cut -c1-120)
    echo "$id $prop rc=$rc $(( $(date +%s) - start ))s $sig" | tee -a $OUT
  else echo "$id $prop PATCH-DOES-NOT-APPLY" | tee -a $OUT; fi
  git -C /repo worktree remove --force $W
done
