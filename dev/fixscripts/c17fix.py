import sys
root=sys.argv[1]; which=sys.argv[2]
fl=root+'/logger/logfile/FileLogger.go'
def sub(path,old,new):
    s=open(path).read(); assert s.count(old)==1,(path,old,s.count(old)); s=s.replace(old,new); open(path,'w').write(s)
if which=='rotate':
    sub(fl,'''	if (this.lastFileRotation != this.conf.rotationEnabled) || (this.lastDataUnit != dateutil.GetDateUnitNow()) || (this.logfile == nil) {
		this.logfile.Close()
		this.logfile = nil
		this.lastFileRotation = this.conf.rotationEnabled
		this.lastDataUnit = dateutil.GetDateUnitNow()
	}
	this.openFile()
}''','''	if (this.lastFileRotation != this.conf.rotationEnabled) || (this.lastDataUnit != dateutil.GetDateUnitNow()) || (this.logfile == nil) {
		// Open the new file and switch the logger's output before closing the old one:
		// closing first lost every line logged until SetOutput(new) ran.
		old := this.logfile
		this.logfile = nil
		this.lastFileRotation = this.conf.rotationEnabled
		this.lastDataUnit = dateutil.GetDateUnitNow()
		this.openFile()
		if this.logfile == nil {
			// could not open the new file: keep writing to the old one
			this.logfile = old
		} else if old != nil {
			old.Close()
		}
		return
	}
	this.openFile()
}''')
if which=='read':
    sub(fl,'''	searchFilePath := filepath.Join(this.conf.homePath, "logs", file)
	f, err := os.Open(searchFilePath)''','''	logDir := filepath.Join(this.conf.homePath, "logs")
	searchFilePath := filepath.Join(logDir, file)
	// never serve a path outside the logs directory
	if rel, err := filepath.Rel(logDir, searchFilePath); err != nil || rel == ".." || strings.HasPrefix(rel, ".."+string(filepath.Separator)) {
		return nil
	}
	f, err := os.Open(searchFilePath)''')
if which=='openstate':
    sub(fl,'''	this.last = dateutil.Now()
	this.lastDataUnit = dateutil.GetDateUnitNow()
	this.lastFileRotation = this.conf.rotationEnabled
	for {''','''	this.last = dateutil.Now()
	for {''')
    sub(fl,'''		var file *os.File
		var err error
		if this.conf.rotationEnabled {
			file, err = os.OpenFile(filepath.Join(home, "logs", fmt.Sprintf("%s-%s-%s.log", this.conf.logID, this.conf.oname, dateutil.YYYYMMDD(dateutil.Now()))), os.O_CREATE|os.O_WRONLY|os.O_APPEND, 0666)''','''		var file *os.File
		var err error
		// Remember for which date and rotation mode this file is opened. run() used to
		// take these from the clock when its goroutine started, so a date change between
		// opening the first file and that moment was never noticed and a whole day was
		// logged into the previous day's file.
		now := dateutil.Now()
		this.lastDataUnit = dateutil.GetDateUnit(now)
		this.lastFileRotation = this.conf.rotationEnabled
		if this.conf.rotationEnabled {
			file, err = os.OpenFile(filepath.Join(home, "logs", fmt.Sprintf("%s-%s-%s.log", this.conf.logID, this.conf.oname, dateutil.YYYYMMDD(now))), os.O_CREATE|os.O_WRONLY|os.O_APPEND, 0666)''')
