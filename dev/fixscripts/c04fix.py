import sys,re
root=sys.argv[1]; which=sys.argv[2]
def sub(path,old,new,count=1):
    path=root+'/'+path
    s=open(path).read(); assert s.count(old)>=1,(path,old); s=s.replace(old,new,count); open(path,'w').write(s)
if which=='readbytes':
    sub('io/DataInputX.go','''func (in *DataInputX) ReadBytes(sz int32) []byte {
	in.offset += sz
	buff := make([]byte, sz)''','''func (in *DataInputX) ReadBytes(sz int32) []byte {
	if sz < 0 {
		panic(fmt.Sprintf("WA003-02 Read Error negative size=%d", sz))
	}
	if in.tcp == nil && int(sz) > in.buffer.Len() {
		// fail before allocating: the input cannot hold sz more bytes
		panic(fmt.Sprintf("WA003-03 Read Error size=%d, available=%d", sz, in.buffer.Len()))
	}
	in.offset += sz
	buff := make([]byte, sz)''')
    sub('io/DataInputX.go','''		if _, err := in.buffer.Read(buff); err != nil {
			panic(fmt.Sprintf("WA003-01 Read Error size=%d, err=%s, ", sz, err.Error()))
			return nil
		}''','''		// bytes.Buffer.Read reports a short read with a nil error: check the count too,
		// otherwise a truncated message decodes with its missing bytes read as zeros
		if n, err := in.buffer.Read(buff); err != nil && sz > 0 {
			panic(fmt.Sprintf("WA003-01 Read Error size=%d, err=%s, ", sz, err.Error()))
		} else if n < int(sz) {
			panic(fmt.Sprintf("WA003-04 Read Error size=%d, read=%d", sz, n))
		}''')
if which=='counts':
    sub('io/DataInputX.go','''func (in *DataInputX) ReadDecimalArrayInt() []int32 {
	sz := int(in.ReadDecimal())
''','''// CheckCount panics unless count elements, each taking at least minElemBytes encoded
// bytes, can still follow in the input. Decoders call it before allocating from a count
// field, so that a corrupted or hostile count costs a recoverable panic instead of memory
// proportional to the count. In connection mode the remaining size is unknown and only a
// negative count is rejected.
func (in *DataInputX) CheckCount(count int64, minElemBytes int) {
	if count < 0 {
		panic(fmt.Sprintf("WA004 Read Error negative count=%d", count))
	}
	if in.tcp != nil {
		return
	}
	if minElemBytes < 1 {
		minElemBytes = 1
	}
	if count > int64(in.buffer.Len())/int64(minElemBytes) {
		panic(fmt.Sprintf("WA004-01 Read Error count=%d exceeds the remaining input (%d bytes)", count, in.buffer.Len()))
	}
}

func (in *DataInputX) ReadDecimalArrayInt() []int32 {
	sz := int(in.ReadDecimal())
	in.CheckCount(int64(sz), 1)
''')
    sub('io/DataInputX.go','''func (in *DataInputX) ReadDecimalArray() []int64 {
	sz := int(in.ReadDecimal())
''','''func (in *DataInputX) ReadDecimalArray() []int64 {
	sz := int(in.ReadDecimal())
	in.CheckCount(int64(sz), 1)
''')
    sub('lang/value/ListValue.go','''	if count == 0 {
		return
	}
	this.table = make([]interface{}, count)''','''	if count == 0 {
		return
	}
	din.CheckCount(int64(count), 1)
	this.table = make([]interface{}, count)''')
    sub('lang/pack/SMTCPPerfPack.go','''	if tcpCount > 0 {
		this.TCPPortPerf = make(''','''	if tcpCount > 0 {
		din.CheckCount(tcpCount, 1)
		this.TCPPortPerf = make(''')
    sub('lang/pack/SMLogEventPack.go','''	if eventCount > 0 {
		this.LogEvent = make(''','''	if eventCount > 0 {
		din.CheckCount(eventCount, 1)
		this.LogEvent = make(''')
    sub('lang/pack/SMDiskQuotaPack.go','''	cnt := int(din.ReadDecimal())
	this.Disk = make(''','''	cnt := int(din.ReadDecimal())
	din.CheckCount(int64(cnt), 1)
	this.Disk = make(''')
    sub('lang/pack/SMNetPerfPack.go','''	cnt := int(din.ReadDecimal())
	this.Net = make(''','''	cnt := int(din.ReadDecimal())
	din.CheckCount(int64(cnt), 1)
	this.Net = make(''')
    sub('lang/pack/SMProcPerfPack.go','''	if netCount > 0 {
		this.Net = make(''','''	if netCount > 0 {
		din.CheckCount(netCount, 1)
		this.Net = make(''')
    sub('lang/pack/SMProcPerfPack.go','''	if fileCount > 0 {
		this.File = make(''','''	if fileCount > 0 {
		din.CheckCount(fileCount, 1)
		this.File = make(''')
    sub('lang/pack/SMProcPerfPack.go','''	cnt := int(din.ReadDecimal())
	this.Proc = make(''','''	cnt := int(din.ReadDecimal())
	din.CheckCount(int64(cnt), 1)
	this.Proc = make(''')
    sub('lang/pack/TextPack.go','''	size := int(din.ReadDecimal())
	this.records = make(''','''	size := int(din.ReadDecimal())
	din.CheckCount(int64(size), 6) // div + hash + at least the blob length byte
	this.records = make(''')
