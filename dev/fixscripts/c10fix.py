import sys,re,os,glob
root=sys.argv[1]; mode=sys.argv[2]
LOCK='\tthis.lock.Lock()\n\tdefer this.lock.Unlock()\n'
report=[]
for path in (sorted(glob.glob(root+'/util/hmap/*.go')) if mode=='hmap' else []):
    s=open(path).read()
    if 'lock ' not in s or 'sync.Mutex' not in s: continue
    # split into top-level chunks at function boundaries
    pat=re.compile(r'^func \(this \*(\w+)\) (\w+)\(([^\n]*)\{\n(.*?)^\}\n', re.S|re.M)
    def fix(m):
        typ,name,hdr,body=m.group(1),m.group(2),m.group(3),m.group(4)
        orig=body
        haslock='this.lock.Lock()' in body
        if name in ('Size','IsEmpty','IsFull'):
            if not haslock:
                body=body.replace('this.Size()','this.count')
                body=LOCK+body
                report.append((os.path.basename(path),typ,name,'locked'))
        else:
            uses=re.search(r'this\.(Size|IsEmpty|IsFull)\(\)',body)
            if uses and (haslock or name[0].islower()):
                if haslock:
                    first=body.index('this.lock.Lock()')
                    if uses.start()<first:
                        # check-then-lock: take the lock first
                        body=body.replace('\tthis.lock.Lock()\n\tdefer this.lock.Unlock()\n','',1)
                        assert 'this.lock.Lock()' not in body,(path,name)
                        body=LOCK+body
                        report.append((os.path.basename(path),typ,name,'lock moved before emptiness check'))
                body=body.replace('this.Size()','this.count')
                body=body.replace('this.IsEmpty()','this.count == 0')
                body=body.replace('this.IsFull()','(this.max > 0 && this.max <= this.count)')
                report.append((os.path.basename(path),typ,name,'uses count under lock'))
        if body==orig: return m.group(0)
        return 'func (this *%s) %s(%s{\n%s}\n'%(typ,name,hdr,body)
    s2=pat.sub(fix,s)
    if s2!=s: open(path,'w').write(s2)
for r in report: print(*r)
# self-deadlocks
def sub(path,old,new):
    path=root+'/'+path; s=open(path).read(); assert s.count(old)==1,(path,old,s.count(old)); open(path,'w').write(s.replace(old,new))

DEADLOCK=[('util/hmap/IntKeyLinkedMap.go',"""	entryList := make([]*IntKeyLinkedEntry, sz)
	en := this.Entries()""","""	entryList := make([]*IntKeyLinkedEntry, sz)
	// not this.Entries(): it takes the lock this method already holds
	en := NewIntKeyLinkedEnumer(this, this.header.link_next, ELEMENT_TYPE_ENTRIES)"""),
('util/hmap/IntKeyMap.go',"""	//IntEnumer en = this.keys();
	en := this.Keys()
""","""	//IntEnumer en = this.keys();
	// not this.Keys(): it takes the lock this method already holds
	en := NewIntKeyEnumer(ELEMENT_TYPE_KEYS, this.table)
""")]
LISTQ=[('util/list/LinkedList.go',"""func (o *LinkedList) Size() int {
	return o.size
}""","""func (o *LinkedList) Size() int {
	o.lock.Lock()
	defer o.lock.Unlock()
	return o.size
}"""),
('util/queue/RequestQueue.go',"""func (this *RequestQueue) Size() int {
	return this.queue.Size()
}""","""func (this *RequestQueue) Size() int {
	this.lock.L.Lock()
	defer this.lock.L.Unlock()
	return this.queue.Size()
}"""),
('util/queue/RequestDoubleQueue.go',"""func (this *RequestDoubleQueue) Size() int {
	return this.queue1.Size() + this.queue2.Size()
}
func (this *RequestDoubleQueue) Size1() int {
	return this.queue1.Size()
}
func (this *RequestDoubleQueue) Size2() int {
	return this.queue2.Size()
}""","""func (this *RequestDoubleQueue) Size() int {
	this.lock.L.Lock()
	defer this.lock.L.Unlock()
	return this.queue1.Size() + this.queue2.Size()
}
func (this *RequestDoubleQueue) Size1() int {
	this.lock.L.Lock()
	defer this.lock.L.Unlock()
	return this.queue1.Size()
}
func (this *RequestDoubleQueue) Size2() int {
	this.lock.L.Lock()
	defer this.lock.L.Unlock()
	return this.queue2.Size()
}""")]
for (f,o,n) in (DEADLOCK if mode=='deadlock' else LISTQ if mode=='listqueue' else []):
    sub(f,o,n)
