import sys
root=sys.argv[1]; which=sys.argv[2]
fc=root+'/config/conffile/FileConfig.go'; dp=root+'/config/conffile/DefaultFileParser.go'
def sub(path,old,new,count=1):
    s=open(path).read(); assert s.count(old)>=1,(path,old); s=s.replace(old,new) if count==0 else s.replace(old,new,count); open(path,'w').write(s)
if which=='mtime':
    sub(fc,'''	new_time := stat.ModTime().Unix()
''','''	// nanosecond resolution: two edits within the same second must both be seen
	new_time := stat.ModTime().UnixNano()
''')
if which=='intset':
    sub(fc,'''				if xx, err := strconv.Atoi(strings.TrimSpace(x)); err != nil {
					set = append(set, int32(xx))''','''				if xx, err := strconv.Atoi(strings.TrimSpace(x)); err == nil {
					set = append(set, int32(xx))''')
if which=='mutex':
    sub(fc,'''type FileConfig struct {
	m              map[string]string
''','''type FileConfig struct {
	// mu guards m: getters run on caller goroutines while run() reloads
	mu             sync.RWMutex
	m              map[string]string
''')
    sub(fc,'''func (this *FileConfig) ApplyDefault() {

	this.m["enabled"] = "true"''','''func (this *FileConfig) ApplyDefault() {
	this.mu.Lock()
	defer this.mu.Unlock()
	this.applyDefault()
}

// applyDefault requires mu to be held for writing.
func (this *FileConfig) applyDefault() {

	this.m["enabled"] = "true"''')
    sub(fc,'''func (this *FileConfig) apply(newM map[string]string) {
	for k, v := range newM {''','''func (this *FileConfig) apply(newM map[string]string) {
	this.mu.Lock()
	defer this.mu.Unlock()
	for k, v := range newM {''')
    sub(fc,'''		this.last_file_time = 0
		this.m = make(map[string]string)
		this.ApplyDefault()
''','''		this.last_file_time = 0
		this.mu.Lock()
		this.m = make(map[string]string)
		this.applyDefault()
		this.mu.Unlock()
''')
    sub(fc,'''func (this *FileConfig) ApplyConfig(m map[string]string) {
	if m != nil {''','''func (this *FileConfig) ApplyConfig(m map[string]string) {
	this.mu.Lock()
	defer this.mu.Unlock()
	if m != nil {''')
    sub(fc,'''func (this *FileConfig) GetKeys() []string {
	keys := make([]string, 0)''','''func (this *FileConfig) GetKeys() []string {
	this.mu.RLock()
	defer this.mu.RUnlock()
	keys := make([]string, 0)''')
    sub(fc,'''func (this *FileConfig) getValue(key string) string {
	if v, ok := this.m[key]; ok {
		return strings.TrimSpace(v)
	}''','''func (this *FileConfig) getValue(key string) string {
	this.mu.RLock()
	v, ok := this.m[key]
	this.mu.RUnlock()
	if ok {
		return strings.TrimSpace(v)
	}''')
    sub(fc,'''func (this *FileConfig) String() string {
	sb := stringutil.NewStringBuffer()''','''func (this *FileConfig) String() string {
	this.mu.RLock()
	defer this.mu.RUnlock()
	sb := stringutil.NewStringBuffer()''')
if which=='atomic':
    sub(dp,'''	if f, err := os.OpenFile(filePath, os.O_WRONLY|os.O_TRUNC, 0644); err != nil {
		return err
	} else {
		defer f.Close()
		io.WriteString(f, line)

		// flush
		f.Sync()
	}
	return nil
}''','''	// Write the new content to a temporary file next to the target and rename it into
	// place, so that at no instant the file holds anything but the old or the new complete
	// content (truncate-then-write exposed an empty or partial file).
	tmpPath := filePath + ".tmp"
	f, err := os.OpenFile(tmpPath, os.O_WRONLY|os.O_CREATE|os.O_TRUNC, 0644)
	if err != nil {
		return err
	}
	if _, err := io.WriteString(f, line); err != nil {
		f.Close()
		os.Remove(tmpPath)
		return err
	}
	// flush
	f.Sync()
	if err := f.Close(); err != nil {
		os.Remove(tmpPath)
		return err
	}
	return os.Rename(tmpPath, filePath)
}''')
