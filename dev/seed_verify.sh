#!/bin/sh
# dev/seed_verify.sh <id> <agent-worktree> <pkgdir-for-demo-test> <demo-test-file> <go test -run pattern> <property>
# Confirms a seeded change independently in a fresh worktree: builds, baseline tests pass, demo fails with / passes without.
# Then runs the property's quick check against it. Writes /verif/seeded/<id>/.
set -u
ID=$1; AWT=$2; PKG=$3; DEMO=$4; PAT=$5; PROP=$6
export GOFLAGS=-mod=mod GOPROXY=off GOSUMDB=off GOTOOLCHAIN=local
W=/tmp/seedchk-$ID
rm -rf $W; git -C /repo worktree remove --force $W 2>/dev/null; git -C /repo worktree prune --expire now; git -C /repo worktree add -q --detach $W HEAD || exit 2
OUT=/verif/seeded/$ID; mkdir -p $OUT
cp $AWT/_out/patch.diff $OUT/patch.diff; cp $AWT/_out/$DEMO $OUT/; cp $AWT/_out/notes.md $OUT/notes.md 2>/dev/null
cd $W
cp $OUT/$DEMO $PKG/
echo "--- demo on original"; go test -vet=off -count=1 -run "$PAT" ./$PKG/ > $OUT/demo_original.txt 2>&1; R0=$?; tail -3 $OUT/demo_original.txt
git apply $OUT/patch.diff || { echo "PATCH DOES NOT APPLY"; exit 2; }
echo "--- build"; go build ./... || { echo BUILD-FAIL; exit 2; }
echo "--- demo with patch"; go test -vet=off -count=1 -run "$PAT" ./$PKG/ > $OUT/demo_broken.txt 2>&1; R1=$?; tail -5 $OUT/demo_broken.txt
rm -f $PKG/$DEMO
echo "--- baseline suite with patch"
go test -vet=off -count=1 -json ./... 2>/dev/null | python3 -c "
import sys,json
res={}
for l in sys.stdin:
    try: e=json.loads(l)
    except: continue
    if e.get('Test') and e.get('Action') in('pass','fail'): res[e['Package']+'::'+e['Test']]=e['Action']
base=json.load(open('/root/.vp/BASELINE.json'))['stable_pass']
bad=[t for t in base if res.get(t)!='pass']
print('stable passing:',len(base)-len(bad),'/',len(base),bad)" | tee $OUT/suite.txt
git checkout -q -- logger config 2>/dev/null; git clean -fdq logger/logfile/logs config/conffile 2>/dev/null
git apply $OUT/patch.diff 2>/dev/null
echo "demo original rc=$R0 (want 0), with patch rc=$R1 (want !=0)"
echo "--- my check ($PROP quick)"
cd /verif && VERIF_REPO=$W bin/check $PROP quick > $OUT/check_quick.txt 2>&1; RC=$?
grep -m3 "VIOLATION\|oracle=\|^simrun" $OUT/check_quick.txt | cut -c1-300
echo "check rc=$RC"
echo "$ID prop=$PROP demo_orig=$R0 demo_patch=$R1 check_rc=$RC" >> /verif/dev/seed_results.log
git -C /repo worktree remove --force $W
