#!/bin/sh
# End-of-session: regenerate every evidence file from /verif run against /repo itself (quick
# tier, VERIF_SEED=1), regenerate MANIFEST.json, validate both against the schemas.
cd /verif || exit 2
unset VERIF_REPO VERIF_EVIDENCE_DIR
export VERIF_SEED=1
rc=0
for P in C04 C06 C10 C11 C16 C17 C18; do
  bin/check $P quick > /tmp/final-$P.out 2>&1; r=$?
  echo "$P exit=$r $(grep -m1 '^simrun' /tmp/final-$P.out | cut -c1-160)"
  grep "VIOLATION\|KNOWN-FINDING" /tmp/final-$P.out
  [ $r -ne 0 ] && rc=1
done
bin/mkmanifest
python3-vt - <<'PY'
import json, jsonschema, glob
m = json.load(open('/verif/MANIFEST.json'))
jsonschema.validate(m, json.load(open('/root/.vp/MANIFEST.schema.json')))
es = json.load(open('/root/.vp/EVIDENCE.schema.json'))
for f in sorted(glob.glob('/verif/evidence/*.json')):
    jsonschema.validate(json.load(open(f)), es)
    print('ok', f)
print('manifest ok; not_applicable =', len(m.get('not_applicable', [])))
PY
git -C /repo status --short | head
exit $rc
