#!/usr/bin/env python3
# dev/mkmeta.py <id> <prop> <demo-file> <first_result> <caught_by> <change> <needs> [origin-extra]
import sys, json
i, prop, demo, first, caught, change, needs = sys.argv[1:8]
extra = sys.argv[8] if len(sys.argv) > 8 else ""
wave_origin = {
 "q": "independent sub-agent given only the property text and a scratch worktree (wave 17; told which mechanisms waves 1-16 used; the change had to be a fast path, cache or batch shortcut: lock-free fast paths, memoised entries not invalidated, bulk paths that differ from the single path in a corner, scratch buffers reused, 'skip if unchanged' keyed on too little)",
 "s": "independent sub-agent given only the property text and a scratch worktree (wave 19; told which mechanisms waves 1-18 used; the change had to move a responsibility between a caller and a callee (who locks, copies, resets, closes, checks, stamps, flushes, wakes) and honour it on all paths but one)",
 "t": "independent sub-agent given only the property text and a scratch worktree (wave 20, four properties; told which mechanisms waves 1-19 used; the change had to concern settings that change while the object is in use: a setting read twice in one operation, a value derived from a setting and cached, a setting applied to one of two places, intermediate states of a reload)",
 "r": "independent sub-agent given only the property text and a scratch worktree (wave 18; told which mechanisms waves 1-17 used; the change had to sit at a size or growth boundary: buffer/chunk boundaries, exact multiples, rehash/growth/shrink thresholds, ring wrap-around, first/last element)",
}[i[-1]]
m = {"id": i, "property": prop, "origin": wave_origin + extra, "change": change, "needs_to_manifest": needs, "demonstration": demo,
 "confirmed": {"compiles": True, "baseline_34_tests_pass": True, "demo_passes_without_patch": True, "demo_fails_with_patch": True,
  "how": "dev/seed_verify.sh: fresh worktree of /repo HEAD, go build ./..., full test suite compared with BASELINE.json, demonstration run before and after the patch"},
 "check_run": "VERIF_REPO=<worktree with patch> bin/check %s quick (VERIF_SEED=1)" % prop, "first_result": first, "caught_by": caught}
json.dump(m, open("/verif/seeded/%s/meta.json" % i, "w"), indent=1)
