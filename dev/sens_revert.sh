#!/bin/sh
# Sensitivity self-test: revert each "fix:" commit of /repo in a scratch worktree and
# confirm that the property's quick check raises a VIOLATION. Usage: dev/sens_revert.sh [sha ...]
set -u
cd /repo
WT=/tmp/sens-revert
OUT=/verif/dev/sens_revert.log
[ $# -gt 0 ] || : > $OUT
if [ $# -gt 0 ]; then LIST="$*"; else LIST=$(git log --format='%h' --grep='^fix:' ); fi
for sha in $LIST; do
  subj=$(git log -1 --format=%s $sha)
  prop=$(grep -o "property=C[0-9]* $sha" /verif/known_findings.json | head -1 | sed 's/property=\(C[0-9]*\).*/\1/')
  [ -z "$prop" ] && { echo "$sha: no property in known_findings.json" | tee -a $OUT; continue; }
  rm -rf $WT; git worktree prune; git worktree add -q --detach $WT HEAD
  if ! (cd $WT && git revert --no-commit $sha >/dev/null 2>&1); then
     echo "$sha $prop REVERT-CONFLICT $subj" | tee -a $OUT; git worktree remove --force $WT; continue
  fi
  start=$(date +%s)
  res=$(cd /verif && VERIF_REPO=$WT VERIF_WORKERS=${VERIF_WORKERS:-8} bin/check $prop quick 2>&1)
  rc=$?
  el=$(( $(date +%s) - start ))
  sig=$(echo "$res" | grep -m1 "oracle=" | sed 's/^ *//')
  echo "$sha $prop rc=$rc ${el}s | $subj | $sig" | tee -a $OUT
  git worktree remove --force $WT
done
