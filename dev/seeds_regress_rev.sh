#!/bin/sh
# Second half of dev/seeds_regress.sh: walks the kept changes in reverse order, skipping what the
# forward pass has already logged; appends to dev/seeds_regress_rev.log.
OUT=/verif/dev/seeds_regress_rev.log; : > $OUT
for d in $(ls -d /verif/seeded/*/ | sort -r); do
  id=$(basename $d)
  grep -q "^$id " /verif/dev/seeds_regress.log 2>/dev/null && break
  prop=$(python3 -c "import json;print(json.load(open('$d/meta.json'))['property'])")
  W=/tmp/sregr-$id; git -C /repo worktree remove --force $W 2>/dev/null; git -C /repo worktree prune --expire now; git -C /repo worktree add -q --detach $W HEAD || continue
  if (cd $W && git apply $d/patch.diff); then
    start=$(date +%s)
    res=$(cd /verif && VERIF_REPO=$W bin/check $prop quick 2>&1); rc=$?
    sig=$(echo "$res" | grep -m1 "oracle=" | sed 's/^ *//' | cut -c1-120)
    echo "$id $prop rc=$rc $(( $(date +%s) - start ))s $sig" | tee -a $OUT
  else echo "$id $prop PATCH-DOES-NOT-APPLY" | tee -a $OUT; fi
  git -C /repo worktree remove --force $W
done
