#!/bin/sh
# dev/try_patch.sh <patch.diff> <PROP> [extra simrun args]  -- run a quick check against /repo HEAD + patch
P=$1; PROP=$2; shift 2
W=/tmp/trypatch-$$; git -C /repo worktree prune; git -C /repo worktree add -q --detach $W HEAD || exit 2
(cd $W && git apply $P) || { echo "patch does not apply"; git -C /repo worktree remove --force $W; exit 2; }
cd /verif && VERIF_REPO=$W bin/check $PROP quick "$@" 2>&1 | grep "^NEW\|VIOLATION\|oracle=\|^simrun\|^worker\|machinery" | cut -c1-260
git -C /repo worktree remove --force $W
