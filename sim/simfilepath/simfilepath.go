// Package simfilepath replaces "path/filepath" in instrumented golib packages. The purely
// lexical functions pass through; the ones that look at the file system (Glob, Walk,
// WalkDir, Abs, EvalSymlinks) look at the simulator's in-memory disk instead of the real one.
package simfilepath

import (
	"io/fs"
	"path/filepath"
	"sort"
	"strings"

	"github.com/whatap/golib/zzverif/simos"
)

const (
	Separator     = filepath.Separator
	ListSeparator = filepath.ListSeparator
)

var (
	ErrBadPattern = filepath.ErrBadPattern
	SkipDir       = filepath.SkipDir
	SkipAll       = filepath.SkipAll
)

type WalkFunc = filepath.WalkFunc

func Base(p string) string                     { return filepath.Base(p) }
func Clean(p string) string                    { return filepath.Clean(p) }
func Dir(p string) string                      { return filepath.Dir(p) }
func Ext(p string) string                      { return filepath.Ext(p) }
func FromSlash(p string) string                { return filepath.FromSlash(p) }
func ToSlash(p string) string                  { return filepath.ToSlash(p) }
func IsAbs(p string) bool                      { return filepath.IsAbs(p) }
func IsLocal(p string) bool                    { return filepath.IsLocal(p) }
func Join(elem ...string) string               { return filepath.Join(elem...) }
func Match(pattern, name string) (bool, error) { return filepath.Match(pattern, name) }
func Rel(base, targ string) (string, error)    { return filepath.Rel(base, targ) }
func Split(p string) (string, string)          { return filepath.Split(p) }
func SplitList(p string) []string              { return filepath.SplitList(p) }
func VolumeName(p string) string               { return filepath.VolumeName(p) }

// Abs: the simulated process's working directory is /cwd.
func Abs(p string) (string, error) {
	if filepath.IsAbs(p) {
		return filepath.Clean(p), nil
	}
	return filepath.Join("/cwd", p), nil
}

// EvalSymlinks: the simulated disk has no symbolic links.
func EvalSymlinks(p string) (string, error) {
	if _, err := simos.Lstat(p); err != nil {
		return "", err
	}
	return filepath.Clean(p), nil
}

func hasMeta(p string) bool { return strings.ContainsAny(p, `*?[\`) }

// Glob as path/filepath.Glob, over the simulated disk.
func Glob(pattern string) ([]string, error) {
	if _, err := filepath.Match(pattern, ""); err != nil {
		return nil, err
	}
	if !hasMeta(pattern) {
		if _, err := simos.Lstat(pattern); err != nil {
			return nil, nil
		}
		return []string{pattern}, nil
	}
	dir, file := filepath.Split(pattern)
	dir = cleanGlobPath(dir)
	if !hasMeta(dir) {
		return glob(dir, file, nil)
	}
	if dir == pattern {
		return nil, filepath.ErrBadPattern
	}
	ms, err := Glob(dir)
	if err != nil {
		return nil, err
	}
	var out []string
	for _, d := range ms {
		out, err = glob(d, file, out)
		if err != nil {
			return nil, err
		}
	}
	return out, nil
}

func cleanGlobPath(p string) string {
	switch p {
	case "":
		return "."
	case "/":
		return p
	default:
		return p[:len(p)-1]
	}
}

func glob(dir, pattern string, matches []string) ([]string, error) {
	fi, err := simos.Stat(dir)
	if err != nil || !fi.IsDir() {
		return matches, nil
	}
	infos, err := simos.ReadDirInfos(dir)
	if err != nil {
		return matches, nil
	}
	var names []string
	for _, i := range infos {
		names = append(names, i.Name())
	}
	sort.Strings(names)
	for _, n := range names {
		ok, err := filepath.Match(pattern, n)
		if err != nil {
			return matches, err
		}
		if ok {
			matches = append(matches, filepath.Join(dir, n))
		}
	}
	return matches, nil
}

// Walk as path/filepath.Walk, over the simulated disk.
func Walk(root string, fn WalkFunc) error {
	info, err := simos.Lstat(root)
	if err != nil {
		err = fn(root, nil, err)
	} else {
		err = walk(root, info, fn)
	}
	if err == filepath.SkipDir || err == filepath.SkipAll {
		return nil
	}
	return err
}

func walk(path string, info fs.FileInfo, fn WalkFunc) error {
	if !info.IsDir() {
		return fn(path, info, nil)
	}
	infos, err := simos.ReadDirInfos(path)
	err1 := fn(path, info, err)
	if err != nil || err1 != nil {
		return err1
	}
	sort.Slice(infos, func(i, j int) bool { return infos[i].Name() < infos[j].Name() })
	for _, fi := range infos {
		if err := walk(filepath.Join(path, fi.Name()), fi, fn); err != nil {
			if !fi.IsDir() || err != filepath.SkipDir {
				return err
			}
		}
	}
	return nil
}

// WalkDir as path/filepath.WalkDir, over the simulated disk.
func WalkDir(root string, fn fs.WalkDirFunc) error {
	return Walk(root, func(p string, info fs.FileInfo, err error) error {
		if info == nil {
			return fn(p, nil, err)
		}
		return fn(p, fs.FileInfoToDirEntry(info), err)
	})
}
