// Package simlog replaces "log" in instrumented golib packages: same formatting as the
// standard logger, but the internal mutex is the simulated one (held across Write, like
// the real one) and the time stamp comes from the virtual clock.
package simlog

import (
	"fmt"
	"io"

	"github.com/whatap/golib/zzverif/simos"
	"github.com/whatap/golib/zzverif/simrt"
)

const (
	Ldate = 1 << iota
	Ltime
	Lmicroseconds
	Llongfile
	Lshortfile
	LUTC
	Lmsgprefix
	LstdFlags = Ldate | Ltime
)

type Logger struct {
	mu     simrt.Mutex
	prefix string
	flag   int
	out    io.Writer
}

func New(out io.Writer, prefix string, flag int) *Logger {
	return &Logger{out: out, prefix: prefix, flag: flag}
}

var std = New(simos.Stderr, "", LstdFlags)

func Default() *Logger { return std }

func (l *Logger) SetOutput(w io.Writer) {
	l.mu.Lock()
	defer l.mu.Unlock()
	l.out = w
}
func (l *Logger) SetFlags(flag int) {
	l.mu.Lock()
	defer l.mu.Unlock()
	l.flag = flag
}
func (l *Logger) SetPrefix(p string) {
	l.mu.Lock()
	defer l.mu.Unlock()
	l.prefix = p
}
func (l *Logger) Flags() int {
	l.mu.Lock()
	defer l.mu.Unlock()
	return l.flag
}
func (l *Logger) Prefix() string {
	l.mu.Lock()
	defer l.mu.Unlock()
	return l.prefix
}
func (l *Logger) Writer() io.Writer {
	l.mu.Lock()
	defer l.mu.Unlock()
	return l.out
}

func itoa(buf *[]byte, i int, wid int) {
	var b [20]byte
	bp := len(b) - 1
	for i >= 10 || wid > 1 {
		wid--
		q := i / 10
		b[bp] = byte('0' + i - q*10)
		bp--
		i = q
	}
	b[bp] = byte('0' + i)
	*buf = append(*buf, b[bp:]...)
}

func (l *Logger) Output(calldepth int, s string) error {
	now := simrt.Now()
	l.mu.Lock()
	defer l.mu.Unlock()
	var buf []byte
	if l.flag&Lmsgprefix == 0 {
		buf = append(buf, l.prefix...)
	}
	if l.flag&(Ldate|Ltime|Lmicroseconds) != 0 {
		if l.flag&Ldate != 0 {
			year, month, day := now.Date()
			itoa(&buf, year, 4)
			buf = append(buf, '/')
			itoa(&buf, int(month), 2)
			buf = append(buf, '/')
			itoa(&buf, day, 2)
			buf = append(buf, ' ')
		}
		if l.flag&(Ltime|Lmicroseconds) != 0 {
			hour, min, sec := now.Clock()
			itoa(&buf, hour, 2)
			buf = append(buf, ':')
			itoa(&buf, min, 2)
			buf = append(buf, ':')
			itoa(&buf, sec, 2)
			if l.flag&Lmicroseconds != 0 {
				buf = append(buf, '.')
				itoa(&buf, now.Nanosecond()/1e3, 6)
			}
			buf = append(buf, ' ')
		}
	}
	if l.flag&Lmsgprefix != 0 {
		buf = append(buf, l.prefix...)
	}
	buf = append(buf, s...)
	if len(s) == 0 || s[len(s)-1] != '\n' {
		buf = append(buf, '\n')
	}
	_, err := l.out.Write(buf)
	return err
}

func (l *Logger) Println(v ...interface{})               { l.Output(2, fmt.Sprintln(v...)) }
func (l *Logger) Printf(format string, v ...interface{}) { l.Output(2, fmt.Sprintf(format, v...)) }
func (l *Logger) Print(v ...interface{})                 { l.Output(2, fmt.Sprint(v...)) }
func (l *Logger) Fatal(v ...interface{}) {
	l.Output(2, fmt.Sprint(v...))
	simrt.Fail("process-exit", "log.Fatal: "+fmt.Sprint(v...))
}
func (l *Logger) Fatalf(format string, v ...interface{}) {
	l.Output(2, fmt.Sprintf(format, v...))
	simrt.Fail("process-exit", "log.Fatalf: "+fmt.Sprintf(format, v...))
}
func (l *Logger) Fatalln(v ...interface{}) { l.Fatal(v...) }
func (l *Logger) Panic(v ...interface{}) {
	s := fmt.Sprint(v...)
	l.Output(2, s)
	panic(s)
}
func (l *Logger) Panicf(format string, v ...interface{}) {
	s := fmt.Sprintf(format, v...)
	l.Output(2, s)
	panic(s)
}
func (l *Logger) Panicln(v ...interface{}) { l.Panic(v...) }

func SetOutput(w io.Writer)                  { std.SetOutput(w) }
func SetFlags(flag int)                      { std.SetFlags(flag) }
func SetPrefix(p string)                     { std.SetPrefix(p) }
func Println(v ...interface{})               { std.Output(2, fmt.Sprintln(v...)) }
func Printf(format string, v ...interface{}) { std.Output(2, fmt.Sprintf(format, v...)) }
func Print(v ...interface{})                 { std.Output(2, fmt.Sprint(v...)) }
func Fatal(v ...interface{})                 { std.Fatal(v...) }
func Fatalf(format string, v ...interface{}) { std.Fatalf(format, v...) }
func Fatalln(v ...interface{})               { std.Fatal(v...) }
func Panic(v ...interface{})                 { std.Panic(v...) }
func Panicf(format string, v ...interface{}) { std.Panicf(format, v...) }
func Panicln(v ...interface{})               { std.Panic(v...) }
