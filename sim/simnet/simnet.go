// Package simnet replaces "net" in instrumented golib packages (and is used directly by
// the harness): an in-memory TCP model under the simulator's scheduler and clock, with
// injectable faults.
//
// The peer ("collector") is a passive sink: bytes a client write is allowed to deliver
// are appended to the server side's receive log at once; reader stalls are modelled by a
// bounded send buffer.  Everything is driven by the simulator's tape.
package simnet

import (
	"errors"
	"io"
	"net"
	"os"
	"strconv"
	"syscall"
	"time"

	"github.com/whatap/golib/zzverif/simrt"
)

type Conn = net.Conn
type Addr = net.Addr
type Error = net.Error
type OpError = net.OpError
type IP = net.IP
type TCPAddr = net.TCPAddr
type UDPAddr = net.UDPAddr
type UDPConn = net.UDPConn
type Listener = net.Listener
type Dialer = net.Dialer

var ErrClosed = net.ErrClosed

// Endpoint modes.
const (
	Up = iota
	Refusing
	BlackHole
)

// ServerSide is the collector's end of one accepted connection.
type ServerSide struct {
	Addr     string
	Ordinal  int    // connection number in this run (0-based, in dial order)
	Recv     []byte // bytes that reached the collector
	Lost     []byte // bytes accepted by the client's write after the peer had closed (TCP write-after-FIN), never delivered
	Accepted int64  // bytes accepted from the client (Recv + Lost + buffered)

	// fault plan (absolute stream offsets; -1 = never)
	ResetAt int64 // peer resets when the stream reaches this offset (mid-write possible)
	CloseAt int64 // peer closes (FIN) once it has received this many bytes
	StallAt int64 // reader stops reading at this offset (send buffer fills up)
	// SlowAt/SlowFor: a healthy but slow collector: at this offset it pauses reading for SlowFor,
	// then drains everything (not a fault: nothing may be lost because of it)
	SlowAt      int64
	SlowFor     time.Duration
	eofWithData bool
	// Discarded: bytes the client's kernel threw away at close (SO_LINGER 0)
	Discarded []byte

	PeerClosed   bool // FIN sent by peer
	PeerReset    bool
	ClientClosed bool
	Faulted      bool // some injected fault touched this connection
	FaultKinds   []string
	lostOnce     bool
	stalled      bool
	buffered     int64 // bytes sitting in the send buffer while the reader is stalled
	pending      []byte
	bufCap       int64
	waiters      []*simrt.Task

	// reader side (server -> client bytes, used by C04)
	ToClient    []byte
	toClientEOF bool
	toClientRST bool
	rdPos       int
	OnData      func(s *ServerSide) // harness hook, called after bytes were delivered
}

type endpoint struct {
	mode   int
	accept func(*ServerSide)
}

// Network is the per-run network state; the harness creates one per run.
type Network struct {
	eps          map[string]*endpoint
	Conns        []*ServerSide
	DialLog      []string
	dialing      int
	DialFail     int   // remaining dials that fail regardless of endpoint (all_servers_down)
	lastDialDone int64 // virtual time at which the most recent successful dial completes / completed
	// OnDial is called when a dial starts (harness hook: lets a workload place activity
	// right at the moment a connection attempt is in flight).
	OnDial func(address string)
}

var cur *Network

// Reset installs a fresh network for the current run.
//
//go:norace
func Reset() *Network {
	cur = &Network{eps: map[string]*endpoint{}}
	return cur
}

//go:norace
func (n *Network) Listen(addr string, accept func(*ServerSide)) {
	n.eps[addr] = &endpoint{mode: Up, accept: accept}
}

//go:norace
func (n *Network) SetMode(addr string, mode int) {
	if e, ok := n.eps[addr]; ok {
		e.mode = mode
	}
}

type simAddr struct{ s string }

func (a simAddr) Network() string { return "tcp" }
func (a simAddr) String() string  { return a.s }

// TCPConn is the client end. The name matches net.TCPConn so golib's type assertion
// `client.(*net.TCPConn)` keeps compiling and holding.
type TCPConn struct {
	srv       *ServerSide
	closed    bool
	wdl, rdl  time.Time
	local     string
	linger    int
	lingerSet bool
}

type timeoutErr struct{}

func (timeoutErr) Error() string   { return "i/o timeout" }
func (timeoutErr) Timeout() bool   { return true }
func (timeoutErr) Temporary() bool { return true }

//go:norace
func opErr(op, addr string, err error) error {
	return &net.OpError{Op: op, Net: "tcp", Addr: simAddr{addr}, Err: err}
}

//go:norace
func latency() {
	// seeded latency; 0 is the simplest choice. Values span code-execution scale
	// (microseconds) to network scale (milliseconds) so that completions can land inside
	// short windows of other tasks.
	switch simrt.ChooseF(12) {
	case 1:
		simrt.Sleep(50 * time.Microsecond)
	case 2:
		simrt.Sleep(2 * time.Millisecond)
	case 3:
		simrt.Sleep(time.Duration(1+simrt.ChooseF(40)) * time.Microsecond)
	case 4:
		simrt.Sleep(time.Duration(1+simrt.ChooseF(400)) * time.Microsecond)
	case 5:
		simrt.Sleep(time.Duration(1+simrt.ChooseF(30)) * time.Millisecond)
	}
}

// DialTimeout connects to a simulated endpoint.
//
//go:norace
func DialTimeout(network, address string, timeout time.Duration) (net.Conn, error) {
	if !simrt.Active() || cur == nil {
		return nil, opErr("dial", address, errors.New("simnet: no simulated network"))
	}
	n := cur
	simrt.YS()
	n.dialing++
	if n.dialing >= 2 {
		simrt.Probe("two_dials_in_flight")
	}
	defer func() { n.dialing-- }()
	n.DialLog = append(n.DialLog, address)
	if n.OnDial != nil {
		n.OnDial(address)
	}
	ep := n.eps[address]
	if n.DialFail > 0 {
		n.DialFail--
		simrt.Fault("dial_refused")
		latency()
		return nil, opErr("dial", address, syscall.ECONNREFUSED)
	}
	if ep == nil || ep.mode == Refusing {
		simrt.Fault("dial_refused")
		latency()
		return nil, opErr("dial", address, syscall.ECONNREFUSED)
	}
	if ep.mode == BlackHole {
		simrt.Fault("dial_timeout")
		if timeout <= 0 {
			timeout = 2 * time.Minute
		}
		simrt.Sleep(timeout)
		return nil, opErr("dial", address, timeoutErr{})
	}
	// completion time of a successful dial: usually an independent seeded latency; when
	// another dial is in flight or has just completed, sometimes land within a few
	// scheduling quanta of its completion (near-simultaneous completions of competing
	// connection attempts are where reconnect logic is fragile)
	if n.lastDialDone > 0 && simrt.ChooseF(3) == 1 {
		q := simrt.QuantumNs()
		target := n.lastDialDone + int64(simrt.ChooseF(80)-20)*q
		if d := target - simrt.Elapsed(); d > 0 {
			simrt.Sleep(time.Duration(d))
		}
		simrt.Probe("dial_completion_near_another")
	} else {
		latency()
	}
	n.lastDialDone = simrt.Elapsed()
	if ep.mode != Up { // changed while we were connecting
		simrt.Fault("dial_refused")
		return nil, opErr("dial", address, syscall.ECONNREFUSED)
	}
	srv := &ServerSide{Addr: address, Ordinal: len(n.Conns), ResetAt: -1, CloseAt: -1, StallAt: -1, SlowAt: -1, bufCap: 64 * 1024}
	n.Conns = append(n.Conns, srv)
	c := &TCPConn{srv: srv, local: "sim-client:" + strconv.Itoa(40000+srv.Ordinal)}
	if ep.accept != nil {
		ep.accept(srv)
	}
	simrt.Note("dial " + address + " -> conn#" + strconv.Itoa(srv.Ordinal))
	return c, nil
}

//go:norace
func Dial(network, address string) (net.Conn, error) {
	return DialTimeout(network, address, 0)
}

//go:norace
func (s *ServerSide) fault(kind string) {
	s.Faulted = true
	s.FaultKinds = append(s.FaultKinds, kind)
	simrt.Fault(kind)
}

// Close: the collector closes its end (FIN).
//
//go:norace
func (s *ServerSide) Close(kind string) {
	if s.PeerClosed || s.PeerReset || s.ClientClosed {
		return
	}
	s.PeerClosed = true
	s.fault(kind)
	s.wake()
}

// Reset: the collector resets the connection (RST).
//
//go:norace
func (s *ServerSide) Reset(kind string) {
	if s.PeerReset || s.ClientClosed {
		return
	}
	s.PeerReset = true
	s.fault(kind)
	s.wake()
}

// Unstall lets a stalled reader drain the send buffer.
//
//go:norace
func (s *ServerSide) Unstall() {
	s.StallAt = -1
	if s.stalled {
		s.stalled = false
		s.buffered = 0
		if len(s.pending) > 0 {
			s.Recv = append(s.Recv, s.pending...)
			s.pending = nil
			if s.OnData != nil {
				s.OnData(s)
			}
		}
		s.wake()
	}
}

//go:norace
func (s *ServerSide) wake() {
	for _, t := range s.waiters {
		simrt.MakeRunnable(t)
	}
	s.waiters = nil
}

// Write implements net.Conn.
//
//go:norace
func (c *TCPConn) Write(b []byte) (int, error) {
	simrt.YS()
	s := c.srv
	if c.closed {
		return 0, opErr("write", s.Addr, net.ErrClosed)
	}
	if simrt.ChooseF(8) == 1 {
		simrt.Sleep(20 * time.Microsecond)
		if c.closed {
			return 0, opErr("write", s.Addr, net.ErrClosed)
		}
	}
	// a write deadline is an absolute instant: once it has passed, every write fails at once,
	// writable socket or not (net.Conn contract)
	if !c.wdl.IsZero() && !simrt.Now().Before(c.wdl) && len(b) > 0 {
		s.fault("write_deadline_already_passed")
		return 0, opErr("write", s.Addr, timeoutErr{})
	}
	written := 0
	for written < len(b) {
		if s.PeerReset {
			return written, opErr("write", s.Addr, syscall.ECONNRESET)
		}
		if s.PeerClosed {
			if !s.lostOnce {
				// TCP: the first write after the peer's FIN is accepted by the kernel and
				// vanishes; the RST it provokes fails the next one.
				s.lostOnce = true
				rest := b[written:]
				s.Lost = append(s.Lost, rest...)
				s.Accepted += int64(len(rest))
				s.fault("write_after_close_lost")
				return len(b), nil
			}
			return written, opErr("write", s.Addr, syscall.EPIPE)
		}
		rest := b[written:]
		n := len(rest)
		// reset at an absolute stream offset (mid-write)
		if s.ResetAt >= 0 && s.Accepted+int64(n) >= s.ResetAt {
			k := int(s.ResetAt - s.Accepted)
			if k < 0 {
				k = 0
			}
			if k > n {
				k = n
			}
			s.deliver(rest[:k])
			written += k
			s.PeerReset = true
			s.ResetAt = -1
			s.fault("peer_reset_mid_stream")
			if written == len(b) {
				// the reset lands exactly after this write: the kernel accepted everything,
				// the next write fails
				return written, nil
			}
			return written, opErr("write", s.Addr, syscall.ECONNRESET)
		}
		// peer close after it has received CloseAt bytes
		if s.CloseAt >= 0 && s.Accepted+int64(n) >= s.CloseAt {
			k := int(s.CloseAt - s.Accepted)
			if k < 0 {
				k = 0
			}
			s.deliver(rest[:k])
			written += k
			s.PeerClosed = true
			s.fault("peer_close_at_offset")
			continue
		}
		if s.SlowAt >= 0 && !s.stalled && s.Accepted+int64(n) >= s.SlowAt {
			k := int(s.SlowAt - s.Accepted)
			if k < 0 {
				k = 0
			}
			s.deliver(rest[:k])
			written += k
			s.stalled = true
			s.SlowAt = -1
			simrt.Probe("collector_slow")
			simrt.AfterFunc(s.SlowFor, s.Unstall)
			continue
		}
		// stalled reader: bounded send buffer
		if s.StallAt >= 0 && !s.stalled && s.Accepted+int64(n) >= s.StallAt {
			k := int(s.StallAt - s.Accepted)
			if k < 0 {
				k = 0
			}
			s.deliver(rest[:k])
			written += k
			s.stalled = true
			s.fault("reader_stalled")
			continue
		}
		if s.stalled {
			free := s.bufCap - s.buffered
			if free > 0 {
				k := int64(n)
				if k > free {
					k = free
				}
				// buffered bytes count as accepted; they are delivered if the reader resumes
				s.buffered += k
				s.Accepted += k
				s.pending = append(s.pending, rest[:k]...)
				written += int(k)
				continue
			}
			// buffer full: block until the reader resumes, the peer dies, or the write deadline
			if !c.wdl.IsZero() {
				now := simrt.Now()
				if !now.Before(c.wdl) {
					s.fault("write_deadline_exceeded")
					return written, opErr("write", s.Addr, timeoutErr{})
				}
				simrt.SleepOrWake(c.wdl.Sub(now), &s.waiters)
			} else {
				simrt.SleepOrWake(24*time.Hour, &s.waiters)
			}
			if c.closed {
				return written, opErr("write", s.Addr, net.ErrClosed)
			}
			continue
		}
		s.deliver(rest)
		written += n
	}
	return written, nil
}

//go:norace
func (s *ServerSide) deliver(b []byte) {
	if len(b) == 0 {
		return
	}
	if len(s.pending) > 0 {
		s.Recv = append(s.Recv, s.pending...)
		s.pending = nil
	}
	s.Recv = append(s.Recv, b...)
	s.Accepted += int64(len(b))
	if s.OnData != nil {
		s.OnData(s)
	}
}

// Read implements net.Conn: bytes the harness queued with Feed, fragmented by the tape.
//
//go:norace
func (c *TCPConn) Read(b []byte) (int, error) {
	simrt.YS()
	s := c.srv
	if c.closed {
		return 0, opErr("read", s.Addr, net.ErrClosed)
	}
	if len(b) == 0 {
		return 0, nil
	}
	if !c.rdl.IsZero() && !simrt.Now().Before(c.rdl) {
		return 0, opErr("read", s.Addr, timeoutErr{})
	}
	avail := len(s.ToClient) - s.rdPos
	if avail == 0 {
		if s.toClientRST {
			return 0, opErr("read", s.Addr, syscall.ECONNRESET)
		}
		if s.toClientEOF {
			return 0, io.EOF
		}
		// nothing queued and no end marked: a real read would block forever
		if !c.rdl.IsZero() {
			now := simrt.Now()
			if now.Before(c.rdl) {
				simrt.Sleep(c.rdl.Sub(now))
			}
			return 0, opErr("read", s.Addr, timeoutErr{})
		}
		simrt.Sleep(24 * time.Hour)
		return 0, opErr("read", s.Addr, timeoutErr{})
	}
	n := len(b)
	if n > avail {
		n = avail
	}
	if n > 1 {
		// fragmentation: 0 = deliver everything asked for (simplest)
		switch simrt.ChooseF(4) {
		case 1:
			n = 1
		case 2:
			n = 1 + simrt.ChooseF(n)
		}
	}
	copy(b, s.ToClient[s.rdPos:s.rdPos+n])
	s.rdPos += n
	if n < len(b) && n < avail {
		simrt.Probe("read_fragmented")
	}
	if s.eofWithData && s.toClientEOF && s.rdPos == len(s.ToClient) {
		// the io.Reader contract lets the last bytes arrive together with io.EOF (crypto/tls
		// connections and many in-memory ones do that)
		simrt.Probe("read_last_bytes_with_eof")
		return n, io.EOF
	}
	return n, nil
}

// Feed queues bytes for the client to read; end: 0 = more may come (reads block), 1 = EOF after
// them, 2 = reset after them, 3 = EOF reported together with the last bytes.
//
//go:norace
func (s *ServerSide) Feed(b []byte, end int) {
	s.ToClient = append(s.ToClient, b...)
	s.toClientEOF = end == 1 || end == 3
	s.toClientRST = end == 2
	s.eofWithData = end == 3
}

// Delivered returns how many fed bytes the client has consumed.
//
//go:norace
func (s *ServerSide) Delivered() int { return s.rdPos }

//go:norace
func (c *TCPConn) Close() error {
	simrt.YS()
	if c.closed {
		return opErr("close", c.srv.Addr, net.ErrClosed)
	}
	c.closed = true
	c.srv.ClientClosed = true
	if c.linger == 0 && c.lingerSet && len(c.srv.pending) > 0 {
		// SO_LINGER 0: close discards whatever the kernel had not sent yet and resets
		c.srv.Discarded = append(c.srv.Discarded, c.srv.pending...)
		c.srv.pending = nil
		c.srv.buffered = 0
		simrt.Probe("linger0_discarded_unsent_data")
	}
	c.srv.wake()
	simrt.Note("client closes conn#" + strconv.Itoa(c.srv.Ordinal))
	return nil
}

//go:norace
func (c *TCPConn) LocalAddr() net.Addr { return simAddr{c.local} }

//go:norace
func (c *TCPConn) RemoteAddr() net.Addr { return simAddr{c.srv.Addr} }

//go:norace
func (c *TCPConn) SetDeadline(t time.Time) error {
	if c.closed {
		return opErr("set", c.srv.Addr, net.ErrClosed)
	}
	c.wdl, c.rdl = t, t
	return nil
}

//go:norace
func (c *TCPConn) SetReadDeadline(t time.Time) error {
	if c.closed {
		return opErr("set", c.srv.Addr, net.ErrClosed)
	}
	c.rdl = t
	return nil
}

//go:norace
func (c *TCPConn) SetWriteDeadline(t time.Time) error {
	if c.closed {
		return opErr("set", c.srv.Addr, net.ErrClosed)
	}
	c.wdl = t
	return nil
}

//go:norace
func (c *TCPConn) SetNoDelay(bool) error { return nil }

//go:norace
func (c *TCPConn) SetKeepAlive(bool) error { return nil }

//go:norace
func (c *TCPConn) SetKeepAlivePeriod(time.Duration) error { return nil }

//go:norace
func (c *TCPConn) SetReadBuffer(int) error { return nil }

//go:norace
func (c *TCPConn) SetWriteBuffer(int) error { return nil }

// SetLinger as for *net.TCPConn: sec < 0 (default) lets a closed connection finish sending in
// the background, sec == 0 discards unsent data at close.
//
//go:norace
func (c *TCPConn) SetLinger(sec int) error {
	c.linger, c.lingerSet = sec, sec >= 0
	return nil
}

//go:norace
func (c *TCPConn) CloseWrite() error { return nil }

//go:norace
func (c *TCPConn) CloseRead() error { return nil }

// Server returns the collector side (harness use).
//
//go:norace
func (c *TCPConn) Server() *ServerSide { return c.srv }

// NewPipe creates a connected client conn outside any endpoint (C04 byte source).
//
//go:norace
func NewPipe() (*TCPConn, *ServerSide) {
	srv := &ServerSide{Addr: "pipe", ResetAt: -1, CloseAt: -1, StallAt: -1, SlowAt: -1, bufCap: 64 * 1024}
	return &TCPConn{srv: srv, local: "pipe-client"}, srv
}

var _ = os.ErrDeadlineExceeded

// --- pass-through helpers of the real package that do not touch the network ---

func JoinHostPort(host, port string) string                 { return net.JoinHostPort(host, port) }
func SplitHostPort(hostport string) (string, string, error) { return net.SplitHostPort(hostport) }
func ParseIP(s string) net.IP                               { return net.ParseIP(s) }
func IPv4(a, b, c, d byte) net.IP                           { return net.IPv4(a, b, c, d) }
