// Package simioutil replaces "io/ioutil" in instrumented golib packages.
package simioutil

import (
	"io"
	"os"

	"github.com/whatap/golib/zzverif/simos"
)

var Discard = io.Discard

func ReadAll(r io.Reader) ([]byte, error)           { return io.ReadAll(r) }
func NopCloser(r io.Reader) io.ReadCloser           { return io.NopCloser(r) }
func ReadDir(dirname string) ([]os.FileInfo, error) { return simos.ReadDirInfos(dirname) }
func ReadFile(filename string) ([]byte, error)      { return simos.ReadFile(filename) }
func WriteFile(filename string, data []byte, perm os.FileMode) error {
	return simos.WriteFile(filename, data, perm)
}
func TempFile(dir, pattern string) (*simos.File, error) { return simos.CreateTemp(dir, pattern) }
