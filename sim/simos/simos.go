// Package simos replaces "os" in instrumented golib packages: an in-memory file system
// and environment under the simulator's scheduler and clock. Every call is a yield point
// and a journal entry; large writes to files not opened with O_APPEND are split into
// tape-chosen chunks (legal for write(2)); a single O_APPEND write stays atomic.
package simos

import (
	"errors"
	"io"
	"io/fs"
	"os"
	"path/filepath"
	"sort"
	"strings"
	"syscall"
	"time"

	"github.com/whatap/golib/zzverif/simrt"
)

type FileInfo = os.FileInfo
type FileMode = os.FileMode
type PathError = os.PathError
type Signal = os.Signal
type DirEntry = os.DirEntry

const (
	O_RDONLY = os.O_RDONLY
	O_WRONLY = os.O_WRONLY
	O_RDWR   = os.O_RDWR
	O_APPEND = os.O_APPEND
	O_CREATE = os.O_CREATE
	O_EXCL   = os.O_EXCL
	O_SYNC   = os.O_SYNC
	O_TRUNC  = os.O_TRUNC

	ModePerm = os.ModePerm
	ModeDir  = os.ModeDir

	PathSeparator = os.PathSeparator
)

var (
	ErrNotExist = os.ErrNotExist
	ErrExist    = os.ErrExist
	ErrClosed   = os.ErrClosed
	ErrInvalid  = os.ErrInvalid
	Args        = os.Args
	Interrupt   = os.Interrupt
)

type node struct {
	mode     fs.FileMode // permission bits (0 = default 0644)
	name     string
	dir      bool
	data     []byte
	mtime    int64
	children map[string]*node
}

// Op is one journal entry.
type Op struct {
	Seq   int
	Kind  string
	Path  string
	Bytes int
	VT    int64
}

// Disk is the per-run file system.
type Disk struct {
	root    *node
	Env     map[string]string
	Journal []Op
	lastM   int64
	// OnBoundary is called after every mutating step (including between write chunks).
	OnBoundary func(kind, path string)
	// OnRemove is called just before a regular file is removed; read returns the content of
	// the (then unlinked) file at any later time, including appends through still-open handles.
	OnRemove func(path string, read func() []byte)
	// FailWrite, if set, may return an error for a write to path (robustness configurations only).
	FailWrite func(path string) error
	// FailOpen, if set, may return an error for an open of path (descriptor table full, disk
	// full, permission lost); nothing is created in that case.
	FailOpen func(path string, flag int) error
	// OnOpen, if set, is told about every open (a harness may wake a task that wants to act
	// while the opener is busy with the file); it cannot fail the open
	OnOpen func(path string, flag int)
	// FailRename, if set, may return an error for a rename (cross-device link, permission).
	FailRename func(oldpath, newpath string) error
	// OnStat is called at the start of every Stat of a path (an external actor may act right
	// before the caller sees the file's attributes).
	OnStat func(path string)
}

var D *Disk

// Reset installs a fresh disk for the current run.
//
//go:norace
func Reset() *Disk {
	D = &Disk{root: &node{name: "/", dir: true, children: map[string]*node{}}, Env: map[string]string{}}
	return D
}

//go:norace
func disk() *Disk {
	if D == nil {
		Reset()
	}
	return D
}

//go:norace
func clean(p string) string {
	if !strings.HasPrefix(p, "/") {
		p = "/cwd/" + p
	}
	return filepath.Clean(p)
}

//go:norace
func (d *Disk) lookup(p string) *node {
	p = clean(p)
	if p == "/" {
		return d.root
	}
	n := d.root
	for _, part := range strings.Split(strings.TrimPrefix(p, "/"), "/") {
		if n == nil || !n.dir {
			return nil
		}
		n = n.children[part]
	}
	return n
}

//go:norace
func (d *Disk) now() int64 {
	t := simrt.NowNs()
	if t <= d.lastM {
		t = d.lastM + 1
	}
	d.lastM = t
	return t
}

//go:norace
func (d *Disk) journal(kind, path string, n int) {
	d.Journal = append(d.Journal, Op{len(d.Journal), kind, path, n, simrt.Elapsed()})
	if d.OnBoundary != nil {
		d.OnBoundary(kind, path)
	}
}

// --- harness helpers (no yields, no journal) ---

//go:norace
func (d *Disk) MkdirAllRaw(p string) {
	p = clean(p)
	n := d.root
	for _, part := range strings.Split(strings.TrimPrefix(p, "/"), "/") {
		if part == "" {
			continue
		}
		c := n.children[part]
		if c == nil {
			c = &node{name: part, dir: true, children: map[string]*node{}, mtime: d.now()}
			n.children[part] = c
		}
		n = c
	}
}

//go:norace
func (d *Disk) WriteRaw(p string, data []byte) {
	p = clean(p)
	d.MkdirAllRaw(filepath.Dir(p))
	parent := d.lookup(filepath.Dir(p))
	parent.children[filepath.Base(p)] = &node{name: filepath.Base(p), data: append([]byte(nil), data...), mtime: d.now()}
}

// DetachRaw unlinks a file and returns a function that links the very same file (content and
// modification time untouched) back under its name: what `mv f f.bak; …; mv f.bak f` does.
//
//go:norace
func (d *Disk) DetachRaw(p string) (reattach func(), ok bool) {
	p = clean(p)
	parent := d.lookup(filepath.Dir(p))
	if parent == nil || parent.children[filepath.Base(p)] == nil {
		return nil, false
	}
	n := parent.children[filepath.Base(p)]
	delete(parent.children, filepath.Base(p))
	d.Journal = append(d.Journal, Op{len(d.Journal), "external-move-away", p, 0, simrt.Elapsed()})
	return func() {
		d.MkdirAllRaw(filepath.Dir(p))
		d.lookup(filepath.Dir(p)).children[filepath.Base(p)] = n
		d.Journal = append(d.Journal, Op{len(d.Journal), "external-move-back", p, len(n.data), simrt.Elapsed()})
	}, true
}

//go:norace
func (d *Disk) ReadRaw(p string) ([]byte, bool) {
	n := d.lookup(p)
	if n == nil || n.dir {
		return nil, false
	}
	return append([]byte(nil), n.data...), true
}

//go:norace
func (d *Disk) ListRaw(p string) []string {
	n := d.lookup(p)
	if n == nil || !n.dir {
		return nil
	}
	var out []string
	for k, c := range n.children {
		if c.dir {
			out = append(out, k+"/")
		} else {
			out = append(out, k)
		}
	}
	sort.Strings(out)
	return out
}

// ReplaceRaw atomically replaces a file's content (what an editor's rename does) and
// bumps its modification time.
//
//go:norace
func (d *Disk) ReplaceRaw(p string, data []byte) {
	d.WriteRaw(p, data)
	d.Journal = append(d.Journal, Op{len(d.Journal), "external-replace", clean(p), len(data), simrt.Elapsed()})
}

// ReplaceRawMtime replaces a file's content and gives it the stated modification time (a
// backup restored with its old time stamp, a file prepared earlier and moved into place).
//
//go:norace
func (d *Disk) ReplaceRawMtime(p string, data []byte, mtimeNs int64) {
	d.WriteRaw(p, data)
	if n := d.lookup(p); n != nil {
		n.mtime = mtimeNs
	}
	d.Journal = append(d.Journal, Op{len(d.Journal), "external-replace-older-mtime", clean(p), len(data), simrt.Elapsed()})
}

// --- os API ---

type fileInfo struct {
	name  string
	size  int64
	dir   bool
	mtime int64
	mode  fs.FileMode
}

func (fi fileInfo) Name() string { return fi.name }
func (fi fileInfo) Size() int64  { return fi.size }
func (fi fileInfo) Mode() fs.FileMode {
	if fi.dir {
		return fs.ModeDir | 0755
	}
	if fi.mode != 0 {
		return fi.mode
	}
	return 0644
}
func (fi fileInfo) ModTime() time.Time { return time.Unix(fi.mtime/1e9, fi.mtime%1e9).UTC() }
func (fi fileInfo) IsDir() bool        { return fi.dir }
func (fi fileInfo) Sys() interface{}   { return nil }

//go:norace
func infoOf(n *node) fileInfo {
	return fileInfo{n.name, int64(len(n.data)), n.dir, n.mtime, n.mode}
}

//go:norace
func perr(op, path string, err error) error { return &os.PathError{Op: op, Path: path, Err: err} }

//go:norace
func Getenv(key string) string {
	if !simrt.Active() {
		return os.Getenv(key)
	}
	return disk().Env[key]
}

//go:norace
func LookupEnv(key string) (string, bool) {
	if !simrt.Active() {
		return os.LookupEnv(key)
	}
	v, ok := disk().Env[key]
	return v, ok
}

//go:norace
func Setenv(key, value string) error {
	if !simrt.Active() {
		return os.Setenv(key, value)
	}
	disk().Env[key] = value
	return nil
}

func Exit(code int)             { os.Exit(code) }
func Getpid() int               { return 4242 }
func Hostname() (string, error) { return "simhost", nil }
func IsNotExist(err error) bool { return os.IsNotExist(err) }
func IsExist(err error) bool    { return os.IsExist(err) }
func Getwd() (string, error)    { return "/cwd", nil }
func TempDir() string           { return "/tmp" }
func Executable() (string, error) {
	return "/cwd/sim", nil
}

//go:norace
func Stat(name string) (FileInfo, error) {
	simrt.YS()
	if dd := disk(); dd.OnStat != nil {
		dd.OnStat(clean(name))
	}
	d := disk()
	n := d.lookup(name)
	if n == nil {
		return nil, perr("stat", name, syscall.ENOENT)
	}
	return infoOf(n), nil
}

//go:norace
func Lstat(name string) (FileInfo, error) { return Stat(name) }

//go:norace
func Mkdir(name string, perm FileMode) error {
	simrt.YS()
	d := disk()
	p := clean(name)
	parent := d.lookup(filepath.Dir(p))
	if parent == nil || !parent.dir {
		return perr("mkdir", name, syscall.ENOENT)
	}
	if parent.children[filepath.Base(p)] != nil {
		return perr("mkdir", name, syscall.EEXIST)
	}
	parent.children[filepath.Base(p)] = &node{name: filepath.Base(p), dir: true, children: map[string]*node{}, mtime: d.now()}
	d.journal("mkdir", p, 0)
	return nil
}

//go:norace
func MkdirAll(name string, perm FileMode) error {
	simrt.YS()
	d := disk()
	if n := d.lookup(name); n != nil && !n.dir {
		return perr("mkdir", name, syscall.ENOTDIR)
	}
	d.MkdirAllRaw(name)
	d.journal("mkdirall", clean(name), 0)
	return nil
}

//go:norace
func Remove(name string) error {
	simrt.YS()
	d := disk()
	p := clean(name)
	parent := d.lookup(filepath.Dir(p))
	if parent == nil || parent.children[filepath.Base(p)] == nil {
		return perr("remove", name, syscall.ENOENT)
	}
	n := parent.children[filepath.Base(p)]
	if n.dir && len(n.children) > 0 {
		return perr("remove", name, syscall.ENOTEMPTY)
	}
	if d.OnRemove != nil && !n.dir {
		nn := n
		d.OnRemove(p, func() []byte { return nn.data })
	}
	delete(parent.children, filepath.Base(p))
	d.journal("remove", p, 0)
	return nil
}

//go:norace
func RemoveAll(name string) error {
	simrt.YS()
	d := disk()
	p := clean(name)
	parent := d.lookup(filepath.Dir(p))
	if parent != nil {
		delete(parent.children, filepath.Base(p))
		d.journal("removeall", p, 0)
	}
	return nil
}

//go:norace
func Rename(oldpath, newpath string) error {
	simrt.YS()
	d := disk()
	op, np := clean(oldpath), clean(newpath)
	if d.FailRename != nil {
		if err := d.FailRename(op, np); err != nil {
			simrt.Fault("disk_rename_error")
			return &os.LinkError{Op: "rename", Old: oldpath, New: newpath, Err: err}
		}
	}
	oparent := d.lookup(filepath.Dir(op))
	if oparent == nil || oparent.children[filepath.Base(op)] == nil {
		return &os.LinkError{Op: "rename", Old: oldpath, New: newpath, Err: syscall.ENOENT}
	}
	nparent := d.lookup(filepath.Dir(np))
	if nparent == nil || !nparent.dir {
		return &os.LinkError{Op: "rename", Old: oldpath, New: newpath, Err: syscall.ENOENT}
	}
	n := oparent.children[filepath.Base(op)]
	delete(oparent.children, filepath.Base(op))
	n.name = filepath.Base(np)
	nparent.children[n.name] = n // atomic replace
	d.journal("rename", np, len(n.data))
	return nil
}

// File is the simulated *os.File.
type File struct {
	n      *node
	path   string
	name   string
	flag   int
	pos    int64
	closed bool
	std    int // 1 stdout, 2 stderr
}

var (
	Stdout = &File{std: 1, name: "/dev/stdout"}
	Stderr = &File{std: 2, name: "/dev/stderr"}
	Stdin  = &File{std: 3, name: "/dev/stdin"}
)

// StdoutSink receives what instrumented code prints to os.Stdout inside a simulation.
var StdoutSink func(b []byte)

//go:norace
func OpenFile(name string, flag int, perm FileMode) (*File, error) {
	simrt.YS()
	d := disk()
	p := clean(name)
	if d.FailOpen != nil {
		if err := d.FailOpen(p, flag); err != nil {
			return nil, perr("open", name, err)
		}
	}
	if d.OnOpen != nil {
		d.OnOpen(p, flag)
	}
	n := d.lookup(p)
	if n == nil {
		if flag&O_CREATE == 0 {
			return nil, perr("open", name, syscall.ENOENT)
		}
		parent := d.lookup(filepath.Dir(p))
		if parent == nil || !parent.dir {
			return nil, perr("open", name, syscall.ENOENT)
		}
		n = &node{name: filepath.Base(p), mtime: d.now(), mode: perm & 0777}
		parent.children[n.name] = n
		d.journal("create", p, 0)
	} else if flag&O_CREATE != 0 && flag&O_EXCL != 0 {
		return nil, perr("open", name, syscall.EEXIST)
	}
	if n.dir && flag&(O_WRONLY|O_RDWR) != 0 {
		return nil, perr("open", name, syscall.EISDIR)
	}
	if flag&O_TRUNC != 0 && !n.dir && flag&(O_WRONLY|O_RDWR) != 0 {
		n.data = nil
		n.mtime = d.now()
		d.journal("truncate", p, 0)
	}
	return &File{n: n, path: p, name: name, flag: flag}, nil
}

//go:norace
func Open(name string) (*File, error) { return OpenFile(name, O_RDONLY, 0) }

//go:norace
func Create(name string) (*File, error) {
	return OpenFile(name, O_RDWR|O_CREATE|O_TRUNC, 0666)
}

//go:norace
func (f *File) Name() string { return f.name }

// Chmod, Chown, deadlines: the rest of *os.File's method set.
//
//go:norace
func (f *File) Chmod(mode FileMode) error {
	simrt.YS()
	if f.closed {
		return perr("chmod", f.name, os.ErrClosed)
	}
	f.n.mode = mode & 0777
	disk().journal("chmod", f.path, 0)
	return nil
}

//go:norace
func (f *File) Chown(uid, gid int) error { return nil }

//go:norace
func (f *File) Chdir() error { return nil }

//go:norace
func (f *File) SetDeadline(time.Time) error { return nil }

//go:norace
func (f *File) SetReadDeadline(time.Time) error { return nil }

//go:norace
func (f *File) SetWriteDeadline(time.Time) error { return nil }

//go:norace
func (f *File) Readdirnames(n int) ([]string, error) {
	infos, err := f.Readdir(n)
	var out []string
	for _, i := range infos {
		out = append(out, i.Name())
	}
	return out, err
}

//go:norace
func (f *File) ReadDir(n int) ([]DirEntry, error) {
	infos, err := f.Readdir(n)
	var out []DirEntry
	for _, i := range infos {
		out = append(out, fs.FileInfoToDirEntry(i))
	}
	return out, err
}

// Chmod / Chown / Chtimes / Truncate by name.
//
//go:norace
func Chmod(name string, mode FileMode) error {
	simrt.YS()
	n := disk().lookup(name)
	if n == nil {
		return perr("chmod", name, syscall.ENOENT)
	}
	n.mode = mode & 0777
	disk().journal("chmod", clean(name), 0)
	return nil
}

//go:norace
func Chown(name string, uid, gid int) error { return nil }

//go:norace
func Chtimes(name string, atime, mtime time.Time) error {
	simrt.YS()
	n := disk().lookup(name)
	if n == nil {
		return perr("chtimes", name, syscall.ENOENT)
	}
	n.mtime = mtime.UnixNano()
	disk().journal("chtimes", clean(name), 0)
	return nil
}

//go:norace
func Truncate(name string, size int64) error {
	f, err := OpenFile(name, O_WRONLY, 0)
	if err != nil {
		return err
	}
	defer f.Close()
	return f.Truncate(size)
}

//go:norace
func SameFile(a, b FileInfo) bool {
	return a.Name() == b.Name() && a.Size() == b.Size() && a.ModTime().Equal(b.ModTime())
}

//go:norace
func Getuid() int { return 1000 }

//go:norace
func Getgid() int { return 1000 }

//go:norace
func Geteuid() int { return 1000 }

//go:norace
func UserHomeDir() (string, error) { return "/home/sim", nil }

//go:norace
func Environ() []string {
	var out []string
	for k, v := range disk().Env {
		out = append(out, k+"="+v)
	}
	sort.Strings(out)
	return out
}

//go:norace
func Unsetenv(key string) error { delete(disk().Env, key); return nil }

//go:norace
func ExpandEnv(s string) string { return os.Expand(s, Getenv) }

//go:norace
func (f *File) Fd() uintptr { return 99 }

//go:norace
func (f *File) Stat() (FileInfo, error) {
	if f == nil {
		return nil, os.ErrInvalid
	}
	simrt.YS()
	if f.closed {
		return nil, perr("stat", f.name, os.ErrClosed)
	}
	if f.std != 0 {
		return fileInfo{name: f.name}, nil
	}
	return infoOf(f.n), nil
}

//go:norace
func (f *File) Close() error {
	if f == nil {
		return os.ErrInvalid
	}
	simrt.YS()
	if f.std != 0 {
		return nil
	}
	if f.closed {
		return perr("close", f.name, os.ErrClosed)
	}
	f.closed = true
	return nil
}

//go:norace
func (f *File) Write(b []byte) (int, error) {
	if f == nil {
		return 0, os.ErrInvalid
	}
	simrt.YS()
	if f.std != 0 {
		if StdoutSink != nil && simrt.Active() {
			StdoutSink(b)
		}
		return len(b), nil
	}
	if f.closed {
		return 0, perr("write", f.name, os.ErrClosed)
	}
	if f.flag&(O_WRONLY|O_RDWR) == 0 {
		return 0, perr("write", f.name, syscall.EBADF)
	}
	d := disk()
	if d.FailWrite != nil {
		if err := d.FailWrite(f.path); err != nil {
			simrt.Fault("disk_write_error")
			return 0, perr("write", f.name, err)
		}
	}
	if f.flag&O_APPEND != 0 {
		// atomic for regular files
		f.n.data = append(f.n.data, b...)
		f.n.mtime = d.now()
		f.pos = int64(len(f.n.data))
		d.journal("append", f.path, len(b))
		return len(b), nil
	}
	written := 0
	for written < len(b) {
		rest := b[written:]
		k := len(rest)
		if k > 1 && simrt.Active() {
			switch simrt.ChooseF(4) {
			case 1:
				k = 1 + simrt.ChooseF(k)
			case 2:
				k = (k + 1) / 2
			}
		}
		end := f.pos + int64(k)
		if int64(len(f.n.data)) < end {
			f.n.data = append(f.n.data, make([]byte, end-int64(len(f.n.data)))...)
		}
		copy(f.n.data[f.pos:end], rest[:k])
		f.pos = end
		f.n.mtime = d.now()
		written += k
		d.journal("write", f.path, k)
		if written < len(b) {
			simrt.Probe("write_split_into_chunks")
			simrt.YS()
		}
	}
	return written, nil
}

//go:norace
func (f *File) WriteString(s string) (int, error) { return f.Write([]byte(s)) }

//go:norace
func (f *File) WriteAt(b []byte, off int64) (int, error) {
	if f == nil {
		return 0, os.ErrInvalid
	}
	simrt.YS()
	if f.closed {
		return 0, perr("write", f.name, os.ErrClosed)
	}
	d := disk()
	end := off + int64(len(b))
	if int64(len(f.n.data)) < end {
		f.n.data = append(f.n.data, make([]byte, end-int64(len(f.n.data)))...)
	}
	copy(f.n.data[off:end], b)
	f.n.mtime = d.now()
	d.journal("writeat", f.path, len(b))
	return len(b), nil
}

//go:norace
func (f *File) Read(b []byte) (int, error) {
	if f == nil {
		return 0, os.ErrInvalid
	}
	simrt.YS()
	if f.closed {
		return 0, perr("read", f.name, os.ErrClosed)
	}
	if f.std != 0 {
		return 0, io.EOF
	}
	if f.n.dir {
		return 0, perr("read", f.name, syscall.EISDIR)
	}
	if f.pos >= int64(len(f.n.data)) {
		return 0, io.EOF
	}
	n := copy(b, f.n.data[f.pos:])
	if n > 1 && simrt.Active() && simrt.ChooseF(4) == 1 {
		n = 1 + simrt.ChooseF(n) // short read
	}
	f.pos += int64(n)
	return n, nil
}

//go:norace
func (f *File) ReadAt(b []byte, off int64) (int, error) {
	if f == nil {
		return 0, os.ErrInvalid
	}
	simrt.YS()
	if f.closed {
		return 0, perr("read", f.name, os.ErrClosed)
	}
	if off < 0 {
		return 0, perr("readat", f.name, errors.New("negative offset"))
	}
	if off >= int64(len(f.n.data)) {
		if len(b) == 0 {
			return 0, nil
		}
		return 0, io.EOF
	}
	n := copy(b, f.n.data[off:])
	if n < len(b) {
		return n, io.EOF
	}
	return n, nil
}

//go:norace
func (f *File) Seek(offset int64, whence int) (int64, error) {
	if f == nil {
		return 0, os.ErrInvalid
	}
	simrt.YS()
	switch whence {
	case io.SeekStart:
		f.pos = offset
	case io.SeekCurrent:
		f.pos += offset
	case io.SeekEnd:
		f.pos = int64(len(f.n.data)) + offset
	}
	if f.pos < 0 {
		f.pos = 0
		return 0, perr("seek", f.name, syscall.EINVAL)
	}
	return f.pos, nil
}

//go:norace
func (f *File) Truncate(size int64) error {
	if f == nil {
		return os.ErrInvalid
	}
	simrt.YS()
	if f.closed {
		return perr("truncate", f.name, os.ErrClosed)
	}
	d := disk()
	if size < int64(len(f.n.data)) {
		f.n.data = f.n.data[:size]
	} else {
		f.n.data = append(f.n.data, make([]byte, size-int64(len(f.n.data)))...)
	}
	f.n.mtime = d.now()
	d.journal("truncate", f.path, int(size))
	return nil
}

//go:norace
func (f *File) Sync() error {
	if f == nil {
		return os.ErrInvalid
	}
	simrt.YS()
	if f.std == 0 {
		disk().journal("sync", f.path, 0)
	}
	return nil
}

//go:norace
func (f *File) Readdir(n int) ([]FileInfo, error) {
	if f == nil || f.n == nil || !f.n.dir {
		return nil, perr("readdir", "", syscall.ENOTDIR)
	}
	return readDirInfos(f.n), nil
}

//go:norace
func readDirInfos(n *node) []FileInfo {
	var names []string
	for k := range n.children {
		names = append(names, k)
	}
	sort.Strings(names)
	out := make([]FileInfo, 0, len(names))
	for _, k := range names {
		out = append(out, infoOf(n.children[k]))
	}
	return out
}

// ReadDirInfos is used by simioutil.ReadDir.
//
//go:norace
func ReadDirInfos(name string) ([]FileInfo, error) {
	simrt.YS()
	d := disk()
	n := d.lookup(name)
	if n == nil {
		return nil, perr("open", name, syscall.ENOENT)
	}
	if !n.dir {
		return nil, perr("readdirent", name, syscall.ENOTDIR)
	}
	return readDirInfos(n), nil
}

type dirEntry struct{ fileInfo }

func (e dirEntry) Type() fs.FileMode          { return e.Mode().Type() }
func (e dirEntry) Info() (fs.FileInfo, error) { return e.fileInfo, nil }

//go:norace
func ReadDir(name string) ([]DirEntry, error) {
	infos, err := ReadDirInfos(name)
	if err != nil {
		return nil, err
	}
	out := make([]DirEntry, len(infos))
	for i, fi := range infos {
		out[i] = dirEntry{fi.(fileInfo)}
	}
	return out, nil
}

//go:norace
func ReadFile(name string) ([]byte, error) {
	f, err := Open(name)
	if err != nil {
		return nil, err
	}
	defer f.Close()
	if f.n.dir {
		return nil, perr("read", name, syscall.EISDIR)
	}
	simrt.YS()
	return append([]byte(nil), f.n.data...), nil
}

//go:norace
func WriteFile(name string, data []byte, perm FileMode) error {
	f, err := OpenFile(name, O_WRONLY|O_CREATE|O_TRUNC, perm)
	if err != nil {
		return err
	}
	_, err = f.Write(data)
	if err1 := f.Close(); err1 != nil && err == nil {
		err = err1
	}
	return err
}

//go:norace
func CreateTemp(dir, pattern string) (*File, error) {
	if dir == "" {
		dir = "/tmp"
		disk().MkdirAllRaw(dir)
	}
	for i := 0; i < 10000; i++ {
		name := filepath.Join(dir, strings.Replace(pattern, "*", "", 1)+"."+itoa(i+simrt.ChooseF(1000)*7))
		f, err := OpenFile(name, O_RDWR|O_CREATE|O_EXCL, 0600)
		if err == nil {
			return f, nil
		}
		if !os.IsExist(err) {
			return nil, err
		}
	}
	return nil, perr("createtemp", dir, syscall.EEXIST)
}

//go:norace
func itoa(i int) string {
	if i == 0 {
		return "0"
	}
	var b []byte
	for i > 0 {
		b = append([]byte{byte('0' + i%10)}, b...)
		i /= 10
	}
	return string(b)
}
