// Package simprops replaces github.com/magiconair/properties in instrumented golib
// packages: the real parser, but files are read through the simulated disk. The real
// MustLoadFile ends the process (log.Fatal) on a missing or unparsable file; inside a
// simulation that is reported as a "process-exit" failure of the run.
package simprops

import (
	"github.com/magiconair/properties"

	"github.com/whatap/golib/zzverif/simos"
	"github.com/whatap/golib/zzverif/simrt"
)

type Properties = properties.Properties
type Encoding = properties.Encoding

const (
	UTF8       = properties.UTF8
	ISO_8859_1 = properties.ISO_8859_1
)

func NewProperties() *Properties                         { return properties.NewProperties() }
func LoadString(s string) (*Properties, error)           { return properties.LoadString(s) }
func Load(buf []byte, enc Encoding) (*Properties, error) { return properties.Load(buf, enc) }
func LoadMap(m map[string]string) *Properties            { return properties.LoadMap(m) }
func MustLoadString(s string) *Properties                { return properties.MustLoadString(s) }

func LoadFile(filename string, enc Encoding) (*Properties, error) {
	if !simrt.Active() {
		return properties.LoadFile(filename, enc)
	}
	b, err := simos.ReadFile(filename)
	if err != nil {
		return nil, err
	}
	return properties.Load(b, enc)
}

func MustLoadFile(filename string, enc Encoding) *Properties {
	if !simrt.Active() {
		return properties.MustLoadFile(filename, enc)
	}
	p, err := LoadFile(filename, enc)
	if err != nil {
		simrt.Fail("process-exit", "properties.MustLoadFile("+filename+") would end the process (log.Fatal): "+err.Error())
		return properties.NewProperties()
	}
	return p
}
