package simrt

import (
	"runtime"
	"strconv"
	"sync/atomic"
	"time"
)

// Task states.
const (
	tsRunnable = 0
	tsBlocked  = 1
	tsDone     = 2
)

// Scheduling policies.
const (
	PolRandom     = 0 // random walk: switch with probability 1/SwitchDen at each yield
	PolPCT        = 1 // priorities + d change points
	PolRunToBlock = 2 // only switch when the running task blocks
	PolSyncOnly   = 3 // random, but only at synchronisation/IO operations
	NumPolicies   = 4
)

type Task struct {
	ID      int
	Name    string
	wake    chan struct{}
	state   int
	waitStr string      // what the task is blocked on (deadlock report)
	waitObj interface{} // object it is blocked on
	prio    int
	killed  bool
	fn      func()
	sim     *Sim
	joiners []*Task
	// OpTag is harness-owned: which recorded operation the task is inside (0 = none).
	OpTag int
	// Sleep bookkeeping
	timerSeq uint64
	quiesce  bool
	frozen   bool
}

// Failure is the first simulator-detected problem of a run.
type Failure struct {
	Kind string `json:"kind"` // deadlock | self-deadlock | unlock-unlocked | panic | stepcap | oracle | ...
	Msg  string `json:"msg"`
	Step int64  `json:"step"`
	VT   int64  `json:"vt_ns"`
}

type timer struct {
	at   int64
	seq  uint64
	task *Task  // wake this task, or
	fn   func() // run this function as a new task (AfterFunc), or
	cb   func() // run this function inline in the scheduler (must not block; timer channels)
	dead bool
}

// Config of one run (everything else comes from the tape).
type Config struct {
	Seed     uint64
	Replay   *Tape // nil = generate from Seed
	MaxSteps int64
	TraceOn  bool
	Epoch    int64   // virtual epoch, ns since Unix epoch; 0 = chosen from tape
	Quanta   []int64 // CPU quantum choices (ns per yield); nil = default set
}

type Sim struct {
	cfg     Config
	streams [nStreams]stream
	tasks   []*Task
	cur     *Task
	root    *Task
	now     int64 // virtual ns since epoch start
	epoch   int64
	quantum int64
	steps   int64
	timers  []*timer // binary heap
	tseq    uint64

	policy     int
	switchDen  int
	pctPoints  []int64
	pctLow     int
	nextPrio   int
	stepsGuess int64

	mainWake chan struct{}
	// live counts the task goroutines of this run that have not returned yet. Run does not
	// return before it is zero: a goroutine of a finished run that was still unwinding would
	// read the package-level S of the NEXT run and act on it as if it were one of its tasks.
	live    int32
	killAck chan struct{}
	over    bool
	fail    *Failure
	epochID uint64

	touched []resetter

	// coverage / fingerprint
	switches   int64
	hash       uint64
	Trace      []string
	Faults     map[string]int
	Probes     map[string]int
	token      int // race token (address only)
	qtoken     int
	quiesceW   *Task
	lockedYld  int64
	SiteName   func(int32) string
	userReset  []func()
	pollers    []*Task // tasks parked because a channel operation could not proceed
	idlePolled bool    // pollers were given a retry since the last progress
	opSwitches int64   // context switches while cur task was inside a recorded op
}

type resetter interface{ simReset() }

// S is the active simulation (nil outside Run). Only the running task or, outside a
// run, the single driver goroutine touches it.
var S *Sim

var epochCounter uint64

// SiteTable is set by the generated sites package.
var SiteTable []string

//go:norace
func siteName(i int32) string {
	if i >= 0 && int(i) < len(SiteTable) {
		return SiteTable[i]
	}
	return "site#" + strconv.Itoa(int(i))
}

// realistic virtual epochs (ns). Never 0: golib compares raw epoch milliseconds with
// small constants.
var epochs = []int64{
	time.Date(2025, 3, 14, 9, 26, 53, 0, time.UTC).UnixNano(),
	time.Date(2024, 2, 28, 23, 59, 40, 0, time.UTC).UnixNano(),
	time.Date(2024, 2, 29, 23, 59, 50, 0, time.UTC).UnixNano(),
	time.Date(2025, 12, 31, 23, 59, 45, 0, time.UTC).UnixNano(),
	time.Date(2026, 9, 28, 23, 59, 30, 0, time.UTC).UnixNano(),
	time.Date(2026, 1, 1, 0, 0, 1, 0, time.UTC).UnixNano(),
	time.Date(2025, 6, 30, 12, 0, 0, 0, time.UTC).UnixNano(),
}

// Result of a run.
type Result struct {
	Fail       *Failure
	Tape       Tape
	Steps      int64
	Switches   int64
	OpSwitches int64
	VirtualNs  int64
	Hash       uint64
	Trace      []string
	Faults     map[string]int
	Probes     map[string]int
	Policy     int
	Tasks      int
}

// Run executes root as the root task of a fresh simulation and returns when the root
// task has returned (remaining tasks are killed) or the run was aborted.
// Must be called from a goroutine that is not a simulated task; one Run at a time.
//
//go:norace
func Run(cfg Config, root func()) *Result {
	if S != nil {
		panic("simrt.Run: nested run")
	}
	s := &Sim{cfg: cfg}
	epochCounter++
	s.epochID = epochCounter
	if cfg.MaxSteps <= 0 {
		s.cfg.MaxSteps = 200000
	}
	for i := 0; i < nStreams; i++ {
		s.streams[i].s = mix64(cfg.Seed, uint64(i)+1)
		if cfg.Replay != nil {
			s.streams[i].replay = true
		}
	}
	if cfg.Replay != nil {
		s.streams[StW].rep = pairsToMap(cfg.Replay.W)
		s.streams[StS].rep = pairsToMap(cfg.Replay.S)
		s.streams[StF].rep = pairsToMap(cfg.Replay.F)
	}
	s.mainWake = make(chan struct{}, 1)
	s.killAck = make(chan struct{}, 1)
	s.Faults = map[string]int{}
	s.Probes = map[string]int{}
	s.hash = 1469598103934665603
	// per-run environment from the F stream
	if cfg.Epoch != 0 {
		s.epoch = cfg.Epoch
	} else {
		s.epoch = epochs[s.streams[StF].choose(len(epochs))]
	}
	quanta := []int64{1000, 100, 10000, 20000}
	if len(cfg.Quanta) > 0 {
		quanta = cfg.Quanta
	}
	s.quantum = quanta[s.streams[StF].choose(len(quanta))]
	// scheduling policy from the S stream
	s.policy = s.streams[StS].choose(NumPolicies)
	s.switchDen = []int{8, 2, 4, 16, 32, 64}[s.streams[StS].choose(6)]
	s.stepsGuess = 400
	S = s
	s.root = s.newTask("root", root)
	s.cur = s.root
	raceDisable()
	s.root.wake <- struct{}{}
	s.waitMain()
	raceEnable()
	// run is over or aborted: kill whatever is left
	s.over = true
	for i := 0; i < len(s.tasks); i++ { // by index: unwinding code may still create tasks
		t := s.tasks[i]
		if t.state != tsDone {
			s.cur = t
			t.killed = true
			raceDisable()
			t.wake <- struct{}{}
			s.waitKillAck(t)
			raceEnable()
			t.state = tsDone
		}
	}
	s.waitGoroutines()
	for _, r := range s.touched {
		r.simReset()
	}
	S = nil
	raceAcquire(&s.token)
	for _, f := range s.userReset {
		f()
	}
	res := &Result{Fail: s.fail, Steps: s.steps, Switches: s.switches, OpSwitches: s.opSwitches,
		VirtualNs: s.now, Hash: s.hash, Trace: s.Trace, Faults: s.Faults, Probes: s.Probes,
		Policy: s.policy, Tasks: len(s.tasks)}
	res.Tape = Tape{Seed: cfg.Seed, W: s.streams[StW].rec, S: s.streams[StS].rec, F: s.streams[StF].rec}
	return res
}

// Watchdog: a run that does not come back in real time means a real goroutine is
// stuck (blocking channel op in instrumented code, infinite loop without yields).
// That is machinery trouble, never a verdict: exit 2.
var WatchdogSeconds = 60
var WatchdogHook func(msg string)

// WatchdogDumpDir, if set, receives the complete goroutine dump of a watchdog exit.
var WatchdogDumpDir string

//go:norace
func (s *Sim) watchdogExit(msg string) {
	if WatchdogHook != nil {
		WatchdogHook(msg)
	}
	println(msg)
	buf := make([]byte, 4<<20)
	n := runtime.Stack(buf, true)
	if WatchdogDumpDir != "" {
		var st string
		for _, t := range s.tasks {
			st += "task " + strconv.Itoa(t.ID) + " " + t.Name + " state=" + strconv.Itoa(int(t.state)) + " killed=" + strconv.FormatBool(t.killed) + " wait=" + t.waitStr + "\n"
		}
		writeDump(WatchdogDumpDir, msg+"\n"+st+string(buf[:n]))
	}
	println(string(buf[:n]))
	exit2()
}

// waitGoroutines waits until every task goroutine of this run has returned.
//
//go:norace
func (s *Sim) waitGoroutines() {
	if atomic.LoadInt32(&s.live) == 0 {
		return
	}
	start := time.Now()
	for n := 0; atomic.LoadInt32(&s.live) != 0; n++ {
		runtime.Gosched()
		if n%1024 == 1023 {
			time.Sleep(50 * time.Microsecond)
			if time.Since(start) > time.Duration(WatchdogSeconds)*time.Second {
				s.watchdogExit("simrt watchdog: task goroutines of a finished run did not return within " + strconv.Itoa(WatchdogSeconds) + "s (seed " +
					strconv.FormatUint(s.cfg.Seed, 10) + ")")
			}
		}
	}
}

// waitKillAck waits for a leftover task to acknowledge its kill; a task that does not is a
// stuck real goroutine (machinery trouble).
//
//go:norace
func (s *Sim) waitKillAck(t *Task) {
	tm := time.NewTimer(time.Duration(WatchdogSeconds) * time.Second)
	select {
	case <-s.killAck:
		tm.Stop()
	case <-tm.C:
		s.watchdogExit("simrt watchdog: task " + t.Name + " did not acknowledge the end of the run within " + strconv.Itoa(WatchdogSeconds) + "s (seed " +
			strconv.FormatUint(s.cfg.Seed, 10) + ", step " + strconv.FormatInt(s.steps, 10) + ")")
	}
}

//go:norace
func (s *Sim) waitMain() {
	tm := time.NewTimer(time.Duration(WatchdogSeconds) * time.Second)
	select {
	case <-s.mainWake:
		tm.Stop()
	case <-tm.C:
		msg := "simrt watchdog: run did not return within " + strconv.Itoa(WatchdogSeconds) + "s (seed " +
			strconv.FormatUint(s.cfg.Seed, 10) + ", step " + strconv.FormatInt(s.steps, 10) + ")"
		s.watchdogExit(msg)
	}
}

//go:norace
func (s *Sim) newTask(name string, fn func()) *Task {
	t := &Task{ID: len(s.tasks), Name: name, wake: make(chan struct{}, 1), fn: fn, sim: s}
	t.prio = 1000 + s.nextPrio
	s.nextPrio++
	if s.policy == PolPCT {
		// random initial priority, distinct
		t.prio = 1000 + s.streams[StS].choose(1000)*16 + t.ID
	}
	s.tasks = append(s.tasks, t)
	// started eagerly by the logical parent so that ThreadSanitizer's fork edge is the
	// one the real `go` statement would create
	atomic.AddInt32(&s.live, 1)
	go t.main()
	return t
}

//go:norace
func (t *Task) main() {
	defer atomic.AddInt32(&t.sim.live, -1) // outermost: runs after exit() and after every deferred call of the task's own code
	raceDisable()
	<-t.wake
	raceEnable()
	s := t.sim
	if t.killed {
		raceReleaseMerge(&s.token)
		raceDisable()
		s.killAck <- struct{}{}
		raceEnable()
		return
	}
	defer t.exit()
	t.fn()
}

// exit runs as a deferred call: normal return, panic, or Goexit (kill).
//
//go:norace
func (t *Task) exit() {
	s := t.sim
	r := recover()
	if t.killed {
		// killed while parked: we are inside Goexit (or a panic of teardown code); just ack.
		raceReleaseMerge(&s.token)
		raceDisable()
		s.killAck <- struct{}{}
		raceEnable()
		return
	}
	if r != nil {
		buf := make([]byte, 8192)
		n := runtime.Stack(buf, false)
		s.setFail("panic", "task "+t.Name+" panicked: "+sprint(r)+"\n"+string(buf[:n]))
	}
	t.state = tsDone
	raceReleaseMerge(&s.token)
	raceReleaseMerge(&s.qtoken)
	raceReleaseMerge(t)
	for _, j := range t.joiners {
		j.state = tsRunnable
	}
	t.joiners = nil
	if t == s.root || s.fail != nil {
		s.endRun()
		return
	}
	next := s.pickAfterBlock()
	if next == nil {
		// nothing can run any more and root has not returned
		return // endRun already signalled by pickAfterBlock
	}
	s.handoffNoWait(next)
}

//go:norace
func sprint(r interface{}) string {
	switch v := r.(type) {
	case string:
		return v
	case error:
		return v.Error()
	case interface{ String() string }:
		return v.String()
	}
	return "(non-string panic value)"
}

//go:norace
func (s *Sim) setFail(kind, msg string) {
	if s.fail == nil {
		s.fail = &Failure{Kind: kind, Msg: msg, Step: s.steps, VT: s.now}
	}
}

// endRun wakes the driver; the calling task must not run golib code afterwards.
//
//go:norace
func (s *Sim) endRun() {
	if !s.over {
		s.over = true
		raceDisable()
		s.mainWake <- struct{}{}
		raceEnable()
	}
}

// abort: record failure, end the run, and park the current task until it is killed.
//
//go:norace
func (s *Sim) abort(kind, msg string) {
	if kind == "self-deadlock" || kind == "unlock-unlocked" {
		buf := make([]byte, 16384)
		n := runtime.Stack(buf, false)
		msg += "\n" + string(buf[:n])
	}
	s.setFail(kind, msg)
	t := s.cur
	t.state = tsBlocked
	t.waitStr = "aborted"
	s.endRun()
	s.park(t)
}

// park blocks the calling task's goroutine until it is woken; handles kill.
//
//go:norace
func (s *Sim) park(t *Task) {
	raceDisable()
	<-t.wake
	raceEnable()
	if t.killed {
		runtime.Goexit()
	}
}

//go:norace
func (s *Sim) handoffNoWait(next *Task) {
	s.noteSwitch(next, -1)
	s.cur = next
	raceDisable()
	next.wake <- struct{}{}
	raceEnable()
}

//go:norace
func (s *Sim) switchTo(next *Task, site int32) {
	me := s.cur
	s.noteSwitch(next, site)
	s.cur = next
	raceDisable()
	next.wake <- struct{}{}
	<-me.wake
	raceEnable()
	if me.killed {
		runtime.Goexit()
	}
}

//go:norace
func (s *Sim) noteSwitch(next *Task, site int32) {
	s.switches++
	if s.cur != nil && s.cur.OpTag != 0 && s.cur.state != tsDone {
		s.opSwitches++
	}
	h := s.hash
	h = (h ^ uint64(next.ID+1)) * 1099511628211
	h = (h ^ uint64(uint32(site))) * 1099511628211
	s.hash = h
	if s.cfg.TraceOn {
		from := "-"
		if s.cur != nil {
			from = s.cur.Name
		}
		where := ""
		if site >= 0 {
			where = " at " + siteName(site)
		}
		s.Trace = append(s.Trace, "step "+strconv.FormatInt(s.steps, 10)+" t="+fmtNs(s.now)+" switch "+from+" -> "+next.Name+where)
	}
}

//go:norace
func fmtNs(ns int64) string {
	return strconv.FormatFloat(float64(ns)/1e9, 'f', 6, 64) + "s"
}

// ---- timers (binary min-heap on (at, seq)) ----

//go:norace
func (s *Sim) addTimer(tm *timer) {
	s.tseq++
	tm.seq = s.tseq
	s.timers = append(s.timers, tm)
	i := len(s.timers) - 1
	for i > 0 {
		p := (i - 1) / 2
		if !timerLess(s.timers[i], s.timers[p]) {
			break
		}
		s.timers[i], s.timers[p] = s.timers[p], s.timers[i]
		i = p
	}
}

//go:norace
func timerLess(a, b *timer) bool {
	if a.at != b.at {
		return a.at < b.at
	}
	return a.seq < b.seq
}

//go:norace
func (s *Sim) popTimer() *timer {
	n := len(s.timers)
	top := s.timers[0]
	s.timers[0] = s.timers[n-1]
	s.timers[n-1] = nil
	s.timers = s.timers[:n-1]
	n--
	i := 0
	for {
		l, r, m := 2*i+1, 2*i+2, i
		if l < n && timerLess(s.timers[l], s.timers[m]) {
			m = l
		}
		if r < n && timerLess(s.timers[r], s.timers[m]) {
			m = r
		}
		if m == i {
			break
		}
		s.timers[i], s.timers[m] = s.timers[m], s.timers[i]
		i = m
	}
	return top
}

// fireTimers makes every task whose timer is due runnable.
//
//go:norace
func (s *Sim) fireTimers() {
	for len(s.timers) > 0 && s.timers[0].at <= s.now {
		tm := s.popTimer()
		if tm.dead {
			continue
		}
		if tm.task != nil {
			if tm.task.state == tsBlocked && tm.task.timerSeq == tm.seq {
				tm.task.state = tsRunnable
				tm.task.timerSeq = 0
			}
		} else if tm.fn != nil {
			s.newTask("afterfunc", tm.fn)
		} else if tm.cb != nil {
			tm.cb()
			s.wakePollers()
		}
	}
}

// liveTimers reports whether a non-dead timer is pending.
//
//go:norace
func (s *Sim) liveTimers() bool {
	for len(s.timers) > 0 && s.timers[0].dead {
		s.popTimer()
	}
	return len(s.timers) > 0
}

// ---- scheduling ----

//go:norace
func (s *Sim) runnableOthers(me *Task) []*Task {
	var out []*Task
	for _, t := range s.tasks {
		if t != me && t.state == tsRunnable && !t.quiesce {
			out = append(out, t)
		}
	}
	return out
}

// yield is a preemption point of the running task. sync=true for lock/IO/sleep sites.
//
//go:norace
func (s *Sim) yield(site int32, sync bool) {
	me := s.cur
	s.steps++
	s.now += s.quantum
	if s.steps > s.cfg.MaxSteps {
		s.abort("stepcap", "step cap "+strconv.FormatInt(s.cfg.MaxSteps, 10)+" reached in task "+me.Name+" at "+siteName(site))
		return
	}
	if len(s.timers) > 0 && s.timers[0].at <= s.now {
		s.fireTimers()
	}
	if len(s.tasks) == 1 {
		return
	}
	var next *Task
	switch s.policy {
	case PolRunToBlock:
		return
	case PolSyncOnly:
		if !sync {
			return
		}
		if !s.streams[StS].chance(1, 2) {
			return
		}
		next = s.pickRandom(me)
	case PolRandom:
		if !s.streams[StS].chance(1, s.switchDen) {
			return
		}
		next = s.pickRandom(me)
	case PolPCT:
		s.pctMaybeDemote(me)
		next = s.pickPrio(nil)
		if next == me {
			return
		}
	}
	if next == nil || next == me {
		return
	}
	s.switchTo(next, site)
}

//go:norace
func (s *Sim) pickRandom(me *Task) *Task {
	rs := s.runnableOthers(me)
	if len(rs) == 0 {
		return nil
	}
	return rs[s.streams[StS].choose(len(rs))]
}

//go:norace
func (s *Sim) pickPrio(exclude *Task) *Task {
	var best *Task
	for _, t := range s.tasks {
		if t == exclude || t.state != tsRunnable || t.quiesce {
			continue
		}
		if best == nil || t.prio > best.prio {
			best = t
		}
	}
	return best
}

//go:norace
func (s *Sim) pctMaybeDemote(me *Task) {
	if s.pctPoints == nil {
		// d change points over the step estimate, drawn once
		d := 1 + s.streams[StS].choose(3)
		s.pctPoints = make([]int64, d)
		for i := 0; i < d; i++ {
			s.pctPoints[i] = int64(1 + s.streams[StS].choose(int(s.stepsGuess)))
		}
	}
	for _, p := range s.pctPoints {
		if p == s.steps {
			s.pctLow++
			me.prio = 100 - s.pctLow
		}
	}
}

// pickAfterBlock chooses who runs when the current task cannot continue. It advances
// the clock if needed. Returns nil when the run ended (deadlock or quiescence wake-up
// handled).
//
//go:norace
func (s *Sim) pickAfterBlock() *Task {
	for {
		var next *Task
		switch s.policy {
		case PolPCT:
			next = s.pickPrio(nil)
		default:
			rs := s.runnableOthers(nil)
			if len(rs) == 1 {
				next = rs[0]
			} else if len(rs) > 1 {
				next = rs[s.streams[StS].choose(len(rs))]
			}
		}
		if next != nil {
			return next
		}
		// nobody runnable (except possibly a quiescence waiter)
		if len(s.pollers) > 0 && !s.idlePolled {
			// channels may have changed through uninstrumented code (context cancellation, a
			// closed channel): give every parked channel operation one retry
			s.idlePolled = true
			s.wakePollers()
			continue
		}
		if s.quiesceW != nil && s.quiesceW.state == tsBlocked && s.quiesceW.quiesce {
			q := s.quiesceW
			q.state = tsRunnable
			q.quiesce = false
			s.quiesceW = nil
			return q
		}
		if s.liveTimers() {
			tm := s.timers[0]
			if tm.at > s.now {
				s.now = tm.at
			}
			s.fireTimers()
			s.idlePolled = false
			continue
		}
		// deadlock: blocked tasks, nothing runnable, no timers
		live := false
		for _, t := range s.tasks {
			if t.state == tsBlocked && !t.frozen {
				live = true
			}
		}
		if !live {
			// only frozen ("process-stopped") tasks remain: nothing more can happen
			s.setFail("oracle-stop", "all remaining tasks are frozen")
			s.endRun()
			return nil
		}
		s.setFail("deadlock", s.describeBlocked())
		s.endRun()
		return nil
	}
}

//go:norace
func (s *Sim) describeBlocked() string {
	msg := "no runnable task and no pending timer; blocked:"
	for _, t := range s.tasks {
		if t.state == tsBlocked && !t.frozen {
			msg += " [" + t.Name + " waits on " + t.waitStr
			if h, ok := t.waitObj.(interface{ holder() string }); ok {
				msg += " held by " + h.holder()
			}
			msg += "]"
		}
	}
	return msg
}

// block parks the current task until something makes it runnable again.
//
//go:norace
func (s *Sim) block(what string, obj interface{}) {
	me := s.cur
	me.state = tsBlocked
	me.waitStr = what
	me.waitObj = obj
	raceReleaseMerge(&s.qtoken)
	next := s.pickAfterBlock()
	if next == nil {
		s.park(me) // run ended; wait for kill
		return
	}
	if next == me {
		me.waitObj = nil
		return
	}
	s.switchTo(next, -1)
	me.waitObj = nil
}

// ---- public API used by shims, instrumented code and harness ----

// Y is the statement-level yield inserted by the instrumenter.
//
//go:norace
func Y(site int32) {
	s := S
	if s == nil || s.over {
		return
	}
	s.yield(site, false)
}

// YS is a synchronisation-level yield used by shims.
//
//go:norace
func YS() {
	s := S
	if s == nil || s.over {
		return
	}
	s.yield(-1, true)
}

// Active reports whether the caller runs inside a live simulation.
//
//go:norace
func Active() bool { return S != nil && !S.over }

// Go starts fn as a new simulated task (or a plain goroutine outside a simulation).
//
//go:norace
func Go(fn func()) { GoNamed("", fn) }

//go:norace
func GoNamed(name string, fn func()) *Task {
	s := S
	if s == nil || s.over {
		if s == nil {
			go fn()
		}
		return nil
	}
	if name == "" {
		name = "bg" + strconv.Itoa(len(s.tasks))
	}
	t := s.newTask(name, fn)
	s.yield(-1, true)
	return t
}

// Join blocks until t has finished.
//
//go:norace
func Join(t *Task) {
	s := S
	if s == nil || s.over || t == nil {
		return
	}
	for t.state != tsDone {
		t.joiners = append(t.joiners, s.cur)
		s.block("join "+t.Name, nil)
	}
	raceAcquire(t)
}

// Done reports whether t has finished.
//
//go:norace
func (t *Task) Done() bool { return t.state == tsDone }

// Blocked reports whether t is blocked, and on what.
//
//go:norace
func (t *Task) Blocked() (bool, string) { return t.state == tsBlocked, t.waitStr }

// Cur returns the running task (nil outside a simulation).
//
//go:norace
func Cur() *Task {
	if S == nil {
		return nil
	}
	return S.cur
}

// WaitIdle blocks the caller (normally the root task) until no other task is runnable.
// Pending timers do not count: use Settle to let them fire.
//
//go:norace
func WaitIdle() {
	s := S
	if s == nil || s.over {
		return
	}
	me := s.cur
	if len(s.runnableOthers(me)) == 0 {
		raceAcquire(&s.qtoken)
		return
	}
	me.quiesce = true
	s.quiesceW = me
	s.block("quiescence", nil)
	me.quiesce = false
	raceAcquire(&s.qtoken)
}

// Settle lets the simulation run until nothing is runnable and no timer is due before
// the given virtual deadline (relative, ns); the clock ends at most at that deadline.
// Returns true if no timers remain at all.
//
//go:norace
func Settle(maxNs int64) bool {
	s := S
	if s == nil || s.over {
		return true
	}
	deadline := s.now + maxNs
	for {
		WaitIdle()
		if s.over {
			return true
		}
		if !s.liveTimers() {
			return true
		}
		at := s.timers[0].at
		if at > deadline {
			if s.now < deadline {
				s.now = deadline
			}
			return false
		}
		if at > s.now {
			s.now = at
		}
		s.fireTimers()
	}
}

// Freeze stops the calling task for good without running any of its deferred code: the
// simulation of "the process stopped here" for the code the task was executing. A frozen
// task never counts as deadlocked; it is torn down with the run.
//
//go:norace
func Freeze() {
	s := S
	if s == nil || s.over {
		return
	}
	me := s.cur
	me.frozen = true
	for {
		s.block("process-stopped", nil)
	}
}

// Fail aborts the run with a harness-detected violation.
//
//go:norace
func Fail(kind, msg string) {
	s := S
	if s == nil || s.over {
		return
	}
	s.abort(kind, msg)
}

// Choose draws from the workload stream.
//
//go:norace
func Choose(n int) int {
	if S == nil {
		return 0
	}
	return S.streams[StW].choose(n)
}

// ChooseF draws from the fault/environment stream.
//
//go:norace
func ChooseF(n int) int {
	if S == nil {
		return 0
	}
	return S.streams[StF].choose(n)
}

// ChanceF is a biased coin on the fault stream (false = no fault = simplest).
//
//go:norace
func ChanceF(num, den int) bool {
	if S == nil {
		return false
	}
	return S.streams[StF].chance(num, den)
}

// Chance is a biased coin on the workload stream.
//
//go:norace
func Chance(num, den int) bool {
	if S == nil {
		return false
	}
	return S.streams[StW].chance(num, den)
}

// NowNs returns virtual nanoseconds since the Unix epoch.
//
//go:norace
func NowNs() int64 {
	s := S
	if s == nil {
		return time.Now().UnixNano()
	}
	return s.epoch + s.now
}

// Elapsed returns virtual ns since the start of the run.
//
//go:norace
func Elapsed() int64 {
	if S == nil {
		return 0
	}
	return S.now
}

// SetStepBudget caps the run at n further steps from now (termination oracle of a
// single operation: the cap moves with every call).
//
//go:norace
func SetStepBudget(n int64) {
	if S != nil {
		S.cfg.MaxSteps = S.steps + n
	}
}

// QuantumNs returns the virtual CPU time charged per yield in this run.
//
//go:norace
func QuantumNs() int64 {
	if S == nil {
		return 1000
	}
	return S.quantum
}

// Steps returns the global event sequence number (used to stamp histories).
//
//go:norace
func Steps() int64 {
	if S == nil {
		return 0
	}
	return S.steps
}

// Stamp returns a strictly increasing event number for history records.
//
//go:norace
func Stamp() int64 {
	s := S
	if s == nil {
		return 0
	}
	s.steps++
	return s.steps
}

//go:norace
func (s *Sim) wakePollers() {
	for _, t := range s.pollers {
		if t.state == tsBlocked && t.waitStr == "channel" {
			t.state = tsRunnable
		}
	}
	s.pollers = s.pollers[:0]
}

// ChanWait parks the calling task because a (rewritten) channel operation could not
// proceed; it is retried when any channel operation completes, a timer channel fires, or
// the simulation would otherwise go idle.
//
//go:norace
func ChanWait(site int32) {
	s := S
	if s == nil || s.over {
		runtime.Gosched()
		return
	}
	s.Probes["channel_op_parked"]++
	s.pollers = append(s.pollers, s.cur)
	s.block("channel", nil)
}

// ChanDone records that a channel operation completed (send, receive, close): parked
// channel operations are retried. Also a preemption point.
//
//go:norace
func ChanDone() {
	s := S
	if s == nil || s.over {
		return
	}
	s.idlePolled = false
	s.wakePollers()
	s.yield(-1, true)
}

// Fault counts an injected fault that actually fired and folds it into the fingerprint.
//
//go:norace
func Fault(kind string) {
	s := S
	if s == nil {
		return
	}
	s.Faults[kind]++
	h := s.hash
	for i := 0; i < len(kind); i++ {
		h = (h ^ uint64(kind[i])) * 1099511628211
	}
	s.hash = h
	if s.cfg.TraceOn {
		s.Trace = append(s.Trace, "step "+strconv.FormatInt(s.steps, 10)+" t="+fmtNs(s.now)+" FAULT "+kind)
	}
}

// Probe counts a rare-situation probe.
//
//go:norace
func Probe(name string) {
	s := S
	if s == nil {
		return
	}
	s.Probes[name]++
}

// Note appends a line to the readable trace (replay mode only) and folds it into the
// fingerprint.
//
//go:norace
func Note(msg string) {
	s := S
	if s == nil {
		return
	}
	h := s.hash
	for i := 0; i < len(msg); i++ {
		h = (h ^ uint64(msg[i])) * 1099511628211
	}
	s.hash = h
	if s.cfg.TraceOn {
		name := "-"
		if s.cur != nil {
			name = s.cur.Name
		}
		s.Trace = append(s.Trace, "step "+strconv.FormatInt(s.steps, 10)+" t="+fmtNs(s.now)+" ["+name+"] "+msg)
	}
}

// Tracing reports whether the readable trace is being collected.
//
//go:norace
func Tracing() bool { return S != nil && S.cfg.TraceOn }

// SetStepsGuess tells the PCT policy roughly how long the run is (from the run's own
// size parameters only).
//
//go:norace
func SetStepsGuess(n int64) {
	if S != nil && n > 10 {
		S.stepsGuess = n
	}
}

// OnReset registers a function run by the driver after the run (singleton cleanup).
//
//go:norace
func OnReset(f func()) {
	if S != nil {
		S.userReset = append(S.userReset, f)
	}
}

// SetOp tags the current task as being inside recorded operation n (0 = none).
//
//go:norace
func SetOp(n int) {
	if S != nil && S.cur != nil {
		S.cur.OpTag = n
	}
}

// AdvanceClock jumps the virtual clock forward (clock fault).
//
//go:norace
func AdvanceClock(ns int64) {
	s := S
	if s == nil || ns <= 0 {
		return
	}
	s.now += ns
	s.fireTimers()
}

// Policy name for evidence.
//
//go:norace
func PolicyName(p int) string {
	switch p {
	case PolRandom:
		return "random"
	case PolPCT:
		return "pct"
	case PolRunToBlock:
		return "run-to-block"
	case PolSyncOnly:
		return "sync-only"
	}
	return "?"
}
