//go:build race

package simrt

import (
	"runtime"
	"unsafe"
)

// RaceBuild reports whether the binary was built with -race.
const RaceBuild = true

//go:norace
func raceDisable() { runtime.RaceDisable() }

//go:norace
func raceEnable() { runtime.RaceEnable() }

//go:norace
func raceAcquire(p interface{}) { runtime.RaceAcquire(ptrOf(p)) }

//go:norace
func raceRelease(p interface{}) { runtime.RaceRelease(ptrOf(p)) }

//go:norace
func raceReleaseMerge(p interface{}) { runtime.RaceReleaseMerge(ptrOf(p)) }

// RaceErrors returns the number of race reports so far in this process.
//
//go:norace
func RaceErrors() int { return runtime.RaceErrors() }

type iface struct {
	typ, data unsafe.Pointer
}

//go:norace
func ptrOf(p interface{}) unsafe.Pointer {
	return (*iface)(unsafe.Pointer(&p)).data
}
