package simrt

import (
	"fmt"
	"reflect"
	"sort"
)

// MapKeys returns the keys of map m in an order decided by the fault/environment stream
// (Go's randomised iteration order is a nondeterminism source and goes behind the seam).
// Outside a simulation the order is the sorted one.
//
//go:norace
func MapKeys(m interface{}) []interface{} {
	v := reflect.ValueOf(m)
	if v.Kind() != reflect.Map || v.Len() == 0 {
		return nil
	}
	ks := v.MapKeys()
	out := make([]interface{}, len(ks))
	strs := make([]string, len(ks))
	for i, k := range ks {
		out[i] = k.Interface()
		strs[i] = fmt.Sprint(out[i])
	}
	sort.Sort(&keySorter{out, strs})
	s := S
	if s != nil && !s.over {
		for i := len(out) - 1; i > 0; i-- {
			j := s.streams[StF].choose(i + 1)
			// choose()==0 must be the simplest outcome: keep sorted order
			j = i - j
			out[i], out[j] = out[j], out[i]
		}
	}
	return out
}

type keySorter struct {
	k []interface{}
	s []string
}

//go:norace
func (a *keySorter) Len() int { return len(a.k) }

//go:norace
func (a *keySorter) Less(i, j int) bool { return a.s[i] < a.s[j] }

//go:norace
func (a *keySorter) Swap(i, j int) {
	a.k[i], a.k[j] = a.k[j], a.k[i]
	a.s[i], a.s[j] = a.s[j], a.s[i]
}
