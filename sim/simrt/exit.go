package simrt

import (
	"os"
	"strconv"
)

//go:norace
func exit2() { os.Exit(2) }

func writeDump(dir, text string) {
	os.WriteFile(dir+"/watchdog-"+strconv.Itoa(os.Getpid())+".txt", []byte(text), 0644)
}
