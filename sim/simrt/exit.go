package simrt

import "os"

//go:norace
func exit2() { os.Exit(2) }
