// Package simrt is the deterministic simulation runtime: choice tape, cooperative
// scheduler, virtual clock, and the synchronisation primitives the shims re-export.
//
// Everything here is //go:norace and self-contained (own PRNG, own heap): with the
// scheduler hand-off hidden from ThreadSanitizer, any instrumented std package used
// from several tasks would itself be reported as racy.
//
// This package is copied into the scratch copy of golib (module path
// github.com/whatap/golib/zzverif/simrt) and therefore compiled under `go 1.17`
// language semantics: no generics.
package simrt

// Stream identifiers of the choice tape.
const (
	StW      = 0 // workload: scenario shape, operations, values
	StS      = 1 // schedule: every scheduling decision
	StF      = 2 // faults and environment: fault kinds/places, latencies, chunking, map order
	nStreams = 3
)

// Pair is one recorded non-zero draw: position in the stream and value.
type Pair struct {
	I int    `json:"i"`
	V uint32 `json:"v"`
}

type stream struct {
	s      uint64 // splitmix64 state (generation mode)
	replay bool
	idx    int
	rec    []Pair         // non-zero draws made (both modes)
	rep    map[int]uint32 // replay values; missing = 0
}

//go:norace
func (st *stream) next() uint64 {
	st.s += 0x9e3779b97f4a7c15
	z := st.s
	z = (z ^ (z >> 30)) * 0xbf58476d1ce4e5b9
	z = (z ^ (z >> 27)) * 0x94d049bb133111eb
	return z ^ (z >> 31)
}

//go:norace
func mix64(a, b uint64) uint64 {
	z := a*0x9e3779b97f4a7c15 + b + 0x632be59bd9b4e019
	z = (z ^ (z >> 30)) * 0xbf58476d1ce4e5b9
	z = (z ^ (z >> 27)) * 0x94d049bb133111eb
	return z ^ (z >> 31)
}

// Mix64 is exported for the harness (seed derivation).
//
//go:norace
func Mix64(a, b uint64) uint64 { return mix64(a, b) }

//go:norace
func (st *stream) choose(n int) int {
	i := st.idx
	st.idx++
	if n <= 1 {
		return 0
	}
	var v int
	if st.replay {
		if rv, ok := st.rep[i]; ok {
			v = int(rv % uint32(n))
		}
	} else {
		v = int(st.next() % uint64(n))
	}
	if v != 0 {
		st.rec = append(st.rec, Pair{i, uint32(v)})
	}
	return v
}

//go:norace
func (st *stream) chance(num, den int) bool {
	i := st.idx
	st.idx++
	var v bool
	if st.replay {
		if rv, ok := st.rep[i]; ok && rv != 0 {
			v = true
		}
	} else {
		v = int(st.next()%uint64(den)) < num
	}
	if v {
		st.rec = append(st.rec, Pair{i, 1})
	}
	return v
}

// Tape is the complete choice record of one run: three sparse streams.
type Tape struct {
	Seed uint64 `json:"seed"`
	W    []Pair `json:"w"`
	S    []Pair `json:"s"`
	F    []Pair `json:"f"`
}

//go:norace
func pairsToMap(p []Pair) map[int]uint32 {
	m := make(map[int]uint32, len(p))
	for _, x := range p {
		m[x.I] = x.V
	}
	return m
}
