//go:build !race

package simrt

// RaceBuild reports whether the binary was built with -race.
const RaceBuild = false

//go:norace
func raceDisable() {}

//go:norace
func raceEnable() {}

//go:norace
func raceAcquire(p interface{}) {}

//go:norace
func raceRelease(p interface{}) {}

//go:norace
func raceReleaseMerge(p interface{}) {}

// RaceErrors returns the number of race reports so far in this process.
//
//go:norace
func RaceErrors() int { return 0 }
