package simrt

import "sync"

// Locker is the real interface, so uninstrumented code interoperates.
type Locker = sync.Locker

// Mutex is the simulated sync.Mutex. The zero value is an unlocked mutex.
// Outside a simulation it behaves sequentially: locking a locked mutex panics
// (a sequential program that does that has deadlocked on itself).
type Mutex struct {
	locked  bool
	owner   *Task
	waiters []*Task
	epoch   uint64
	lockVT  int64
}

//go:norace
func (m *Mutex) simReset() {
	m.locked = false
	m.owner = nil
	m.waiters = nil
}

//go:norace
func (m *Mutex) holder() string {
	if m.owner != nil {
		return m.owner.Name
	}
	return "?"
}

//go:norace
func (m *Mutex) touch(s *Sim) {
	if m.epoch != s.epochID {
		m.epoch = s.epochID
		// state left over from an earlier run (process-wide golib locks) is void
		m.locked = false
		m.owner = nil
		m.waiters = nil
		s.touched = append(s.touched, m)
	}
}

// SelfDeadlock is the panic value raised outside a simulation when sequential code
// re-locks a mutex it already holds.
type SelfDeadlock struct{}

func (SelfDeadlock) Error() string {
	return "simsync: Lock of an already locked mutex in sequential code (self-deadlock)"
}

//go:norace
func (m *Mutex) Lock() {
	s := S
	if s == nil {
		if m.locked {
			panic(SelfDeadlock{})
		}
		m.locked = true
		raceAcquire(m)
		return
	}
	if s.over {
		return
	}
	m.touch(s)
	s.yield(-1, true)
	for m.locked {
		if m.owner == s.cur {
			s.abort("self-deadlock", "task "+s.cur.Name+" locks a mutex it already holds")
			return
		}
		m.waiters = append(m.waiters, s.cur)
		if m.owner != nil && m.owner.OpTag != 0 {
			s.Probes["blocked_on_lock_held_inside_op"]++
		}
		s.block("mutex", m)
	}
	m.locked = true
	m.owner = s.cur
	raceAcquire(m)
}

//go:norace
func (m *Mutex) TryLock() bool {
	s := S
	if s == nil {
		if m.locked {
			return false
		}
		m.locked = true
		raceAcquire(m)
		return true
	}
	if s.over {
		return true
	}
	m.touch(s)
	s.yield(-1, true)
	if m.locked {
		return false
	}
	m.locked = true
	m.owner = s.cur
	raceAcquire(m)
	return true
}

//go:norace
func (m *Mutex) Unlock() {
	s := S
	if s == nil {
		if !m.locked {
			panic("simsync: Unlock of unlocked mutex")
		}
		raceRelease(m)
		m.locked = false
		return
	}
	if s.over {
		return
	}
	m.touch(s)
	if !m.locked {
		s.abort("unlock-unlocked", "task "+s.cur.Name+" unlocks an unlocked mutex (fatal error in real Go)")
		return
	}
	raceRelease(m)
	m.locked = false
	m.owner = nil
	for _, w := range m.waiters {
		if w.state == tsBlocked {
			w.state = tsRunnable
		}
	}
	m.waiters = m.waiters[:0]
	s.yield(-1, true)
}

// RWMutex: writers exclusive, readers shared, and — as sync.RWMutex documents — a blocked
// Lock excludes new readers: from the moment a writer has announced itself until it
// unlocks, RLock waits. (Recursive read locking therefore deadlocks as soon as a writer
// arrives between the two RLocks, exactly as with the real type.)
type RWMutex struct {
	w       Mutex
	readers int
	writer  bool
	pending bool // a writer has announced itself (waiting for the readers to drain, or holding the lock)
	waiters []*Task
	epoch   uint64
}

//go:norace
func (m *RWMutex) simReset() {
	m.readers = 0
	m.writer = false
	m.pending = false
	m.waiters = nil
}

//go:norace
func (m *RWMutex) touch(s *Sim) {
	if m.epoch != s.epochID {
		m.epoch = s.epochID
		m.simReset()
		s.touched = append(s.touched, m)
	}
}

//go:norace
func (m *RWMutex) wakeAll() {
	for _, w := range m.waiters {
		if w.state == tsBlocked {
			w.state = tsRunnable
		}
	}
	m.waiters = m.waiters[:0]
}

//go:norace
func (m *RWMutex) Lock() {
	s := S
	if s == nil {
		if m.writer || m.readers > 0 {
			panic(SelfDeadlock{})
		}
		m.writer = true
		raceAcquire(m)
		return
	}
	if s.over {
		return
	}
	m.touch(s)
	s.yield(-1, true)
	for m.pending { // writers queue behind the announced one
		m.waiters = append(m.waiters, s.cur)
		s.block("rwmutex(w)", nil)
	}
	m.pending = true
	for m.readers > 0 {
		m.waiters = append(m.waiters, s.cur)
		s.block("rwmutex(w)", nil)
	}
	m.writer = true
	raceAcquire(m)
}

//go:norace
func (m *RWMutex) Unlock() {
	s := S
	if s == nil {
		raceRelease(m)
		m.writer = false
		return
	}
	if s.over {
		return
	}
	m.touch(s)
	if !m.writer {
		s.abort("unlock-unlocked", "RWMutex.Unlock of unlocked mutex")
		return
	}
	raceRelease(m)
	m.writer = false
	m.pending = false
	m.wakeAll()
	s.yield(-1, true)
}

//go:norace
func (m *RWMutex) RLock() {
	s := S
	if s == nil {
		if m.writer {
			panic(SelfDeadlock{})
		}
		m.readers++
		raceAcquire(m)
		return
	}
	if s.over {
		return
	}
	m.touch(s)
	s.yield(-1, true)
	for m.pending {
		m.waiters = append(m.waiters, s.cur)
		s.block("rwmutex(r)", nil)
	}
	m.readers++
	raceAcquire(m)
}

//go:norace
func (m *RWMutex) RUnlock() {
	s := S
	if s == nil {
		raceReleaseMerge(m)
		m.readers--
		return
	}
	if s.over {
		return
	}
	m.touch(s)
	if m.readers <= 0 {
		s.abort("unlock-unlocked", "RWMutex.RUnlock without RLock")
		return
	}
	raceReleaseMerge(m)
	m.readers--
	if m.readers == 0 {
		m.wakeAll()
	}
	s.yield(-1, true)
}

//go:norace
func (m *RWMutex) RLocker() Locker { return (*rlocker)(m) }

type rlocker RWMutex

//go:norace
func (r *rlocker) Lock() { (*RWMutex)(r).RLock() }

//go:norace
func (r *rlocker) Unlock() { (*RWMutex)(r).RUnlock() }

// Cond is the simulated sync.Cond. Like the real one it adds no happens-before edge of
// its own beyond its Locker.
type Cond struct {
	L       Locker
	waiters []*condWaiter
}

type condWaiter struct {
	t        *Task
	signaled bool
}

//go:norace
func NewCond(l Locker) *Cond { return &Cond{L: l} }

//go:norace
func (c *Cond) Wait() {
	s := S
	if s == nil {
		panic("simsync: Cond.Wait outside a simulation would block forever")
	}
	if s.over {
		return
	}
	w := &condWaiter{t: s.cur}
	c.waiters = append(c.waiters, w) // registered before unlocking, as the real Cond does
	if len(c.waiters) >= 2 {
		s.Probes["cond_two_waiters"]++
	}
	c.L.Unlock()
	for !w.signaled {
		s.block("cond", nil)
	}
	c.L.Lock()
}

//go:norace
func (c *Cond) Signal() {
	s := S
	if s == nil || s.over {
		return
	}
	if len(c.waiters) > 0 {
		w := c.waiters[0]
		c.waiters = c.waiters[1:]
		w.signaled = true
		if w.t.state == tsBlocked {
			w.t.state = tsRunnable
		}
	}
	s.yield(-1, true)
}

//go:norace
func (c *Cond) Broadcast() {
	s := S
	if s == nil || s.over {
		return
	}
	if len(c.waiters) >= 2 {
		s.Probes["broadcast_woke_two"]++
	}
	for _, w := range c.waiters {
		w.signaled = true
		if w.t.state == tsBlocked {
			w.t.state = tsRunnable
		}
	}
	c.waiters = nil
	s.yield(-1, true)
}

// WaitGroup with the real happens-before edges (Done -> Wait).
type WaitGroup struct {
	n       int
	waiters []*Task
}

//go:norace
func (wg *WaitGroup) Add(d int) {
	s := S
	wg.n += d
	if wg.n < 0 {
		panic("sync: negative WaitGroup counter")
	}
	if d < 0 {
		raceReleaseMerge(wg)
	}
	if wg.n == 0 {
		for _, w := range wg.waiters {
			if w.state == tsBlocked {
				w.state = tsRunnable
			}
		}
		wg.waiters = nil
	}
	if s != nil && !s.over {
		s.yield(-1, true)
	}
}

//go:norace
func (wg *WaitGroup) Done() { wg.Add(-1) }

//go:norace
func (wg *WaitGroup) Wait() {
	s := S
	if s == nil {
		if wg.n > 0 {
			panic("simsync: WaitGroup.Wait outside a simulation would block")
		}
		return
	}
	if s.over {
		return
	}
	s.yield(-1, true)
	for wg.n > 0 {
		wg.waiters = append(wg.waiters, s.cur)
		s.block("waitgroup", nil)
	}
	raceAcquire(wg)
}

// Once.
type Once struct {
	done bool
	m    Mutex
}

//go:norace
func (o *Once) Do(f func()) {
	if o.done {
		raceAcquire(o)
		return
	}
	o.m.Lock()
	if !o.done {
		f()
		raceRelease(o)
		o.done = true
	}
	o.m.Unlock()
}

// Pool is the simulated sync.Pool. The real one hands out per-P cached objects and is
// emptied by the garbage collector - nondeterminism the simulator does not control - so a
// run that depends on WHICH pooled object it gets would not replay. This one is a LIFO
// stack; occasionally (fault/environment stream) a Get finds the pool "collected" and
// falls back to New, as the real pool may at any time.
type Pool struct {
	New   func() interface{}
	items []interface{}
	real  sync.Pool
}

//go:norace
func (p *Pool) Get() interface{} {
	s := S
	if s == nil || s.over {
		if x := p.real.Get(); x != nil {
			return x
		}
		if p.New != nil {
			return p.New()
		}
		return nil
	}
	s.yield(-1, true)
	if len(p.items) > 0 && s.streams[StF].chance(1, 8) {
		p.items = p.items[:0] // the collector emptied the pool
		s.Probes["pool_collected"]++
	}
	if n := len(p.items); n > 0 {
		x := p.items[n-1]
		p.items = p.items[:n-1]
		raceAcquire(p)
		return x
	}
	if p.New != nil {
		return p.New()
	}
	return nil
}

//go:norace
func (p *Pool) Put(x interface{}) {
	s := S
	if s == nil || s.over {
		p.real.Put(x)
		return
	}
	if x == nil {
		return
	}
	raceReleaseMerge(p)
	p.items = append(p.items, x)
	s.yield(-1, true)
}
