package simrt

import "time"

// Now returns the virtual wall clock.
//
//go:norace
func Now() time.Time {
	if S == nil {
		return time.Now()
	}
	ns := S.epoch + S.now
	return time.Unix(ns/1e9, ns%1e9).UTC()
}

// Sleep blocks the task for d of virtual time. d <= 0 is a plain yield.
//
//go:norace
func Sleep(d time.Duration) {
	s := S
	if s == nil {
		time.Sleep(d)
		return
	}
	if s.over {
		return
	}
	if d <= 0 {
		s.yield(-1, true)
		return
	}
	tm := &timer{at: s.now + int64(d), task: s.cur}
	s.addTimer(tm)
	s.cur.timerSeq = tm.seq
	s.block("sleep", nil)
}

// Unsupported aborts the run with kind "unsupported" (mapped to exit 2 by the harness):
// the instrumented code used a facility the simulator cannot control.
//
//go:norace
func Unsupported(what string) {
	s := S
	if s == nil || s.over {
		panic("simrt: unsupported outside simulation: " + what)
	}
	s.abort("unsupported", what)
}

// AfterFunc runs f as a new task after d of virtual time.
//
//go:norace
func AfterFunc(d time.Duration, f func()) *SimTimer {
	s := S
	if s == nil || s.over {
		return &SimTimer{real: time.AfterFunc(d, f)}
	}
	tm := &timer{at: s.now + int64(d), fn: f}
	s.addTimer(tm)
	return &SimTimer{tm: tm}
}

// SimTimer is the handle returned by AfterFunc.
type SimTimer struct {
	tm   *timer
	real *time.Timer
}

//go:norace
func (t *SimTimer) Stop() bool {
	if t.real != nil {
		return t.real.Stop()
	}
	was := !t.tm.dead && S != nil && t.tm.at > S.now
	t.tm.dead = true
	return was
}

// SleepOrWake blocks the task for at most d of virtual time; MakeRunnable on it (it is
// appended to *list) wakes it early.
//
//go:norace
func SleepOrWake(d time.Duration, list *[]*Task) {
	s := S
	if s == nil || s.over {
		return
	}
	if d <= 0 {
		s.yield(-1, true)
		return
	}
	tm := &timer{at: s.now + int64(d), task: s.cur}
	s.addTimer(tm)
	s.cur.timerSeq = tm.seq
	*list = append(*list, s.cur)
	s.block("io-wait", nil)
	tm.dead = true
	s.cur.timerSeq = 0
}

// ClockReadHook, if set by a scenario, is called when instrumented code reads the clock
// through time.Now (a seam inside operations that have no other: a harness may wake a parked
// task there). It is cleared at the end of every run.
var ClockReadHook func()

// MakeRunnable wakes a task parked by SleepOrWake.
//
//go:norace
func MakeRunnable(t *Task) {
	if t != nil && t.state == tsBlocked && t.waitStr == "io-wait" {
		t.state = tsRunnable
	}
}

// ChanTimer is the simulated counterpart of time.Timer / time.Ticker for code that waits
// on the channel: the value is delivered by the scheduler at the virtual instant.
type ChanTimer struct {
	C      <-chan time.Time
	c      chan time.Time
	tm     *timer
	period time.Duration
	real   *time.Timer
	realT  *time.Ticker
}

//go:norace
func (ct *ChanTimer) arm(d time.Duration) {
	s := S
	tm := &timer{at: s.now + int64(d)}
	tm.cb = func() {
		select {
		case ct.c <- Now():
		default:
		}
		if ct.period > 0 && !tm.dead {
			ct.arm(ct.period)
		}
	}
	ct.tm = tm
	s.addTimer(tm)
}

// NewChanTimer: one-shot (period 0) or periodic timer channel.
//
//go:norace
func NewChanTimer(d, period time.Duration) *ChanTimer {
	s := S
	if s == nil || s.over {
		if period > 0 {
			tk := time.NewTicker(period)
			return &ChanTimer{C: tk.C, realT: tk}
		}
		rt := time.NewTimer(d)
		return &ChanTimer{C: rt.C, real: rt}
	}
	c := make(chan time.Time, 1)
	ct := &ChanTimer{C: c, c: c, period: period}
	ct.arm(d)
	return ct
}

//go:norace
func (ct *ChanTimer) Stop() bool {
	if ct.real != nil {
		return ct.real.Stop()
	}
	if ct.realT != nil {
		ct.realT.Stop()
		return true
	}
	was := ct.tm != nil && !ct.tm.dead && S != nil && ct.tm.at > S.now
	if ct.tm != nil {
		ct.tm.dead = true
	}
	return was
}

//go:norace
func (ct *ChanTimer) Reset(d time.Duration) bool {
	if ct.real != nil {
		return ct.real.Reset(d)
	}
	if ct.realT != nil {
		ct.realT.Reset(d)
		return true
	}
	was := ct.Stop()
	if S != nil && !S.over {
		ct.arm(d)
	}
	return was
}
