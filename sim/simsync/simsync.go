// Package simsync replaces "sync" in instrumented golib packages.
package simsync

import (
	"sync"

	"github.com/whatap/golib/zzverif/simrt"
)

type Mutex = simrt.Mutex
type RWMutex = simrt.RWMutex
type Cond = simrt.Cond
type WaitGroup = simrt.WaitGroup
type Once = simrt.Once
type Locker = sync.Locker

// Pool is simulated (deterministic object reuse); Map keeps the real implementation (it
// never blocks; Range order over it is not seeded).
type Pool = simrt.Pool
type Map = sync.Map

func NewCond(l Locker) *Cond { return simrt.NewCond(l) }
