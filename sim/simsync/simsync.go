// Package simsync replaces "sync" in instrumented golib packages.
package simsync

import (
	"sync"

	"github.com/whatap/golib/zzverif/simrt"
)

type Mutex = simrt.Mutex
type RWMutex = simrt.RWMutex
type Cond = simrt.Cond
type WaitGroup = simrt.WaitGroup
type Once = simrt.Once
type Locker = sync.Locker

// Pool and Map keep the real implementations: they never block.
type Pool = sync.Pool
type Map = sync.Map

func NewCond(l Locker) *Cond { return simrt.NewCond(l) }
