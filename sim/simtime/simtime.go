// Package simtime replaces "time" in instrumented golib packages: everything that
// reads the clock or waits goes to the virtual clock, the rest is the real package.
package simtime

import (
	"time"

	"github.com/whatap/golib/zzverif/simrt"
)

type Duration = time.Duration
type Time = time.Time
type Month = time.Month
type Weekday = time.Weekday
type Location = time.Location
type Ticker = simrt.ChanTimer
type Timer = simrt.ChanTimer

const (
	Nanosecond  = time.Nanosecond
	Microsecond = time.Microsecond
	Millisecond = time.Millisecond
	Second      = time.Second
	Minute      = time.Minute
	Hour        = time.Hour

	RFC3339     = time.RFC3339
	RFC3339Nano = time.RFC3339Nano
	RFC1123     = time.RFC1123
	Kitchen     = time.Kitchen
	ANSIC       = time.ANSIC

	January   = time.January
	February  = time.February
	March     = time.March
	April     = time.April
	May       = time.May
	June      = time.June
	July      = time.July
	August    = time.August
	September = time.September
	October   = time.October
	November  = time.November
	December  = time.December

	Sunday    = time.Sunday
	Monday    = time.Monday
	Tuesday   = time.Tuesday
	Wednesday = time.Wednesday
	Thursday  = time.Thursday
	Friday    = time.Friday
	Saturday  = time.Saturday
)

var (
	UTC   = time.UTC
	Local = time.Local
)

func Now() Time {
	if h := simrt.ClockReadHook; h != nil {
		h()
	}
	return simrt.Now()
}
func Sleep(d Duration)      { simrt.Sleep(d) }
func Since(t Time) Duration { return simrt.Now().Sub(t) }
func Until(t Time) Duration { return t.Sub(simrt.Now()) }
func Date(year int, month Month, day, hour, min, sec, nsec int, loc *Location) Time {
	return time.Date(year, month, day, hour, min, sec, nsec, loc)
}
func Unix(sec, nsec int64) Time                   { return time.Unix(sec, nsec) }
func UnixMilli(ms int64) Time                     { return time.UnixMilli(ms) }
func Parse(layout, value string) (Time, error)    { return time.Parse(layout, value) }
func ParseDuration(s string) (Duration, error)    { return time.ParseDuration(s) }
func LoadLocation(name string) (*Location, error) { return time.LoadLocation(name) }
func FixedZone(name string, offset int) *Location { return time.FixedZone(name, offset) }
func ParseInLocation(layout, value string, loc *Location) (Time, error) {
	return time.ParseInLocation(layout, value, loc)
}

func AfterFunc(d Duration, f func()) *simrt.SimTimer { return simrt.AfterFunc(d, f) }

// Channel-based timers: the channel is a real one, the value is delivered by the
// simulator's scheduler at the virtual instant; the instrumenter turns the blocking
// receive/select on it into a parked, retried operation.
func After(d Duration) <-chan Time { return simrt.NewChanTimer(d, 0).C }
func Tick(d Duration) <-chan Time  { return simrt.NewChanTimer(d, d).C }
func NewTimer(d Duration) *Timer   { return simrt.NewChanTimer(d, 0) }
func NewTicker(d Duration) *Ticker { return simrt.NewChanTimer(d, d) }
